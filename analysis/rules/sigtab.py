"""Signal identifier tables (C18; also used by C10/C16): extraction, bijection, oracle, order."""
import json
import os
import ordsem
from terms import FA, show, mk, is_const, const_val, T
from paths import enum_paths
from facts import callee_of

GNSS = ("gps", "glo", "gal", "sbas", "qzss", "bds", "navic")
FLOORS = {"gps": 15, "glo": 4, "gal": 19, "sbas": 4, "qzss": 13, "bds": 16, "navic": 2}
MM = "msg::msm_mappings::"


def _sig_consts(t):
    """SigId value term -> (band, attr) constants, for SigId(b, a) aggregates or SigId::new(b, a) calls."""
    if t.op == "agg" and t.args[0].endswith("::SigId") and len(t.args[3]) == 2:
        b, a = t.args[3]
    elif t.op == "call" and t.args[0].endswith("::SigId::new") and len(t.args[1]) == 2:
        b, a = t.args[1]
    else:
        return None
    if is_const(b) and is_const(a):
        return (const_val(b), const_val(a))
    return None


def _proj_kind(t, argn=1):
    """Is t `sig.0`/`sig.band()` (-> 'band') or `sig.1`/`sig.attribute()` (-> 'attr') of argument argn?"""
    if t.op == "field" and t.args[0].op == "arg" and t.args[0].args[1] == argn:
        return "band" if t.args[1] == 0 else ("attr" if t.args[1] == 1 else None)
    if t.op == "call" and t.args[1] and t.args[1][0].op == "arg" and t.args[1][0].args[1] == argn:
        if t.args[0].endswith("::SigId::band"):
            return "band"
        if t.args[0].endswith("::SigId::attribute"):
            return "attr"
    return None


def extract_to_sig(prog, res, path, rule):
    f = prog.fn(path)
    if f is None:
        res.missing(rule, path)
        return None
    res.fn(f)
    fa = FA(f, prog)
    fa.defs(0)
    tab = {}
    none_paths = 0
    for blocks, facts, rv, flist in enum_paths(fa):
        idf = [(t, k, v) for t, (k, v) in facts.items() if t.op == "arg" and t.args[1] == 1]
        if rv.op == "agg" and rv.args[2] == "Some":
            sc = _sig_consts(rv.args[3][0])
            if sc is None or len(idf) != 1 or idf[0][1] != "eq":
                res.ob(rule, "%s | entry shape" % path, False, "Some(%s) under %s" % (show(rv, fa.names), idf), f.loc)
                continue
            k = idf[0][2]
            if k in tab and tab[k] != sc:
                res.ob(rule, "%s | id %s maps to two descriptors" % (path, k), False, "", f.loc)
            tab[k] = sc
        elif rv.op == "agg" and rv.args[2] == "None":
            none_paths += 1
        else:
            res.ob(rule, "%s | return shape" % path, False, show(rv, fa.names), f.loc)
    res.ob(rule, "%s | unlisted ids map to None" % path, none_paths >= 1, "", f.loc)
    return tab


def extract_to_id(prog, res, path, rule):
    f = prog.fn(path)
    if f is None:
        res.missing(rule, path)
        return None
    res.fn(f)
    fa = FA(f, prog)
    fa.defs(0)
    tab = {}
    none_paths = 0
    for blocks, facts, rv, flist in enum_paths(fa):
        band = attr = None
        okf = True
        for t, (k, v) in facts.items():
            pk = _proj_kind(t)
            if pk == "band" and k == "eq":
                band = v
            elif pk == "attr" and k == "eq":
                attr = v
            elif pk is None:
                okf = False
        if rv.op == "agg" and rv.args[2] == "Some":
            x = rv.args[3][0]
            if not (is_const(x) and band is not None and attr is not None and okf):
                res.ob(rule, "%s | entry shape" % path, False, "Some(%s) band=%s attr=%s" % (show(x, fa.names), band, attr), f.loc)
                continue
            key = (band, attr)
            if key in tab and tab[key] != const_val(x):
                res.ob(rule, "%s | descriptor %s maps to two ids" % (path, key), False, "", f.loc)
            tab[key] = const_val(x)
        elif rv.op == "agg" and rv.args[2] == "None":
            none_paths += 1
        else:
            res.ob(rule, "%s | return shape" % path, False, show(rv, fa.names), f.loc)
    res.ob(rule, "%s | unlisted descriptors map to None" % path, none_paths >= 1, "", f.loc)
    return tab


def tables_by_evaluation(prog, g):
    """(to_sig table, to_id table, note) by abstract interpretation on concrete arguments, or None if outside the modelled subset.
    to_sig is evaluated on all 256 ids.  to_id touches its argument only through equality tests (checked: the only operations on the
    descriptor are derived `==` and field reads), so its result is determined by which table band / attribute the two fields equal:
    one representative per class (every band and attribute of the table, plus one value outside each) covers all descriptors."""
    import guardsem, bitsem
    from bitsem import Adt
    SIG = MM + g + "::SigId"
    try:
        ts = {}
        for n in range(256):
            r = guardsem.eval_fn(prog, MM + g + "::to_sig", [n])
            if isinstance(r, Adt) and r.vname == "Some":
                v = r.fields[0]
                if isinstance(v, bitsem.Ref):
                    return None
                if not (isinstance(v, Adt) and len(v.fields) == 2 and all(isinstance(x, int) for x in v.fields)):
                    return None
                ts[n] = (v.fields[0], v.fields[1])
            elif not (isinstance(r, Adt) and r.vname == "None"):
                return None
        bands = sorted({b for b, a in ts.values()})
        attrs = sorted({a for b, a in ts.values()})
        ob = next(x for x in range(256) if x not in bands)
        oa = next(x for x in range(0x20, 0x400) if x not in attrs)
        ti = {}
        n_eval = 0
        for b in bands + [ob]:
            for a in attrs + [oa]:
                r = guardsem.eval_fn(prog, MM + g + "::to_id", [Adt(SIG, 0, None, [b, a])])
                n_eval += 1
                if isinstance(r, Adt) and r.vname == "Some":
                    v = r.fields[0]
                    if not isinstance(v, int):
                        return None
                    if b == ob or a == oa:
                        return None      # a descriptor outside the table's components is recognised: not a plain table lookup
                    ti[(b, a)] = v
                elif not (isinstance(r, Adt) and r.vname == "None"):
                    return None
        if not _only_equality_on_descriptor(prog, MM + g + "::to_id"):
            _REFUSED[g] = _WHY[0]
            return None
        return ts, ti, "to_sig: 256 ids evaluated, %d entries; to_id: %d descriptor classes evaluated, %d entries" % (len(ts), n_eval, len(ti))
    except (bitsem.Undecided, bitsem.Panic, StopIteration, RecursionError, KeyError, AttributeError, TypeError):
        return None


_W = {"u8": 8, "i8": 8, "u16": 16, "i16": 16, "u32": 32, "i32": 32, "char": 32, "u64": 64, "i64": 64, "usize": 64, "isize": 64, "u128": 128, "i128": 128,
      "bool": 1}


def _ty_width(ty):
    if not isinstance(ty, dict):
        return None
    if ty.get("bits"):
        return 64 if ty["bits"] in ("size", 0) else int(ty["bits"])
    n = ty.get("name") or ty.get("k")
    return _W.get(n)


def _place_ty(f, place):
    ty = f.rec["locals"][place["local"]]
    if isinstance(ty, dict) and "ty" in ty and "k" not in ty:
        ty = ty["ty"]
    for p in place["proj"]:
        k = p["k"]
        if k == "deref":
            ty = ty.get("to", {"k": "other"})
        elif k == "field":
            ty = p.get("ty", {"k": "other"})
        elif k in ("index", "constindex"):
            ty = ty.get("elem", {"k": "other"})
    return ty


_REFUSED = {}
_WHY = [""]


def _only_equality_on_descriptor(prog, path):
    """to_id and the closures / derived eq it uses apply only ==, != and field reads to values (no ordering, arithmetic or hashing), and no
    conversion that identifies distinct values (a narrowing cast such as `attr as u8` merges U+0143 with 'C': then the classes induced by the
    compared constants are not the classes the function distinguishes, and evaluation on representatives decides nothing)"""
    seen = set()
    st = [path]
    while st:
        p = st.pop()
        if p in seen or p not in prog.fns:
            continue
        seen.add(p)
        f = prog.fns[p]
        for blk in f.rec["blocks"]:
            for s_ in blk["stmts"]:
                if s_["k"] == "assign" and s_["rv"]["k"] == "binop" and s_["rv"]["op"] not in ("Eq", "Ne", "BitAnd", "BitOr"):
                    _WHY[0] = "%s applies %s to a value (line %s)" % (p, s_["rv"]["op"], (s_.get("loc") or {}).get("line"))
                    return False
                if s_["k"] == "assign" and s_["rv"]["k"] == "aggregate" and s_["rv"].get("agg") == "closure":
                    st.append(s_["rv"]["path"])
                if s_["k"] == "assign" and s_["rv"]["k"] == "cast" and not str(s_["rv"].get("kind", "")).startswith("PointerCoercion"):
                    o = s_["rv"]["op"]
                    if o["k"] == "const":
                        continue
                    src = _ty_width(_place_ty(f, o["place"])) if o["k"] in ("copy", "move") else None
                    dst = _ty_width(s_["rv"].get("ty"))
                    if src is None or dst is None or dst < src:
                        _WHY[0] = "%s converts a %s-bit value to %s bits before comparing (line %s): distinct descriptors become equal" % (
                            p, src, dst, (s_.get("loc") or {}).get("line"))
                        return False
            t = blk["term"]
            if t["k"] == "call":
                c = t.get("resolved") or t["callee"]
                if c in prog.fns:
                    st.append(c)
    return True


def desc(ba):
    b, a = ba
    return "%d%s" % (b, chr(a)) if 0x20 <= a < 0x7f else "%d/U+%04X" % (b, a)


def rule_tables(prog, res, oracle_path):
    """Y-tab: the 7 MSM tables are bijections onto ids in 2..32 and agree with the standard's table."""
    oracle = json.load(open(oracle_path))
    out = {}
    import engine
    for g in GNSS:
        # first try: read the tables off the match arms; if the functions are not written as matches, evaluate them
        probe = engine.Result("probe")
        ts = extract_to_sig(prog, probe, MM + g + "::to_sig", "Y-tab")
        ti = extract_to_id(prog, probe, MM + g + "::to_id", "Y-tab")
        if probe.violations() and prog.fn(MM + g + "::to_sig") is not None and prog.fn(MM + g + "::to_id") is not None:
            ev = tables_by_evaluation(prog, g)
            if ev is not None:
                ts, ti, note = ev
                res.fn(prog.fn(MM + g + "::to_sig"))
                res.fn(prog.fn(MM + g + "::to_id"))
                res.ob("Y-tab", "%s | tables obtained by evaluating to_sig on every id 0..=255 and to_id on every class of descriptors its comparisons can distinguish" % g,
                       True, note, prog.fn(MM + g + "::to_sig").loc)
            else:
                if g in _REFUSED:
                    res.ob("Y-tab", "%s::to_id | touches the descriptor only through ==, != and value-preserving conversions" % (MM + g), False,
                           _REFUSED[g], prog.fn(MM + g + "::to_id").loc)
                ts = extract_to_sig(prog, res, MM + g + "::to_sig", "Y-tab")
                ti = extract_to_id(prog, res, MM + g + "::to_id", "Y-tab")
        else:
            ts = extract_to_sig(prog, res, MM + g + "::to_sig", "Y-tab")
            ti = extract_to_id(prog, res, MM + g + "::to_id", "Y-tab")
        if ts is None or ti is None:
            continue
        out[g] = (ts, ti)
        inv = {v: k for k, v in ts.items()}
        res.ob("Y-tab", "%s | to_id is the inverse of to_sig (bijection)" % g,
               ti == inv and len(inv) == len(ts),
               "to_sig has %d ids / %d distinct descriptors, to_id has %d; mismatches: %s" % (
                   len(ts), len(inv), len(ti), sorted(desc(k) for k in set(ti) ^ set(inv))[:6] or
                   sorted("%s:%s!=%s" % (desc(k), ti[k], inv[k]) for k in ti if k in inv and ti[k] != inv[k])[:6]),
               sample={"entries": len(ts)})
        res.ob("Y-tab", "%s | ids lie in 2..=32" % g, all(2 <= k <= 32 for k in ts) and all(2 <= v <= 32 for v in ti.values()),
               "ids: %s" % sorted(ts))
        res.floor("Y-tab", "%s table entries" % g, len(ts), FLOORS[g])
        orc = {int(k): v for k, v in oracle[g].items()}
        orc_by_desc = {v: k for k, v in orc.items()}
        for k, ba in sorted(ts.items()):
            d = desc(ba)
            if d in orc_by_desc:
                res.ob("Y-orc", "%s | %s sits at the standard's position" % (g, d), orc_by_desc[d] == k,
                       "code: %d, standard: %d" % (k, orc_by_desc[d]), sample={"descriptor": d, "position": k} if d in ("1C", "2W") else None)
            elif k in orc:
                res.ob("Y-orc", "%s | position %d holds the standard's descriptor" % (g, k), False,
                       "code has %s, the standard has %s" % (d, orc[k]))
            else:
                res.ob("Y-orc", "%s | %s=%d is not in the frozen standard table" % (g, d, k), False,
                       "entry unknown to oracles/msm_signals.json (extend the oracle from the standard if this is a new signal)")
        for k, d in sorted(orc.items()):
            res.ob("Y-orc", "%s | standard entry %s=%d is present" % (g, d, k), k in ts and desc(ts[k]) == d,
                   "code has %s at %d" % (desc(ts[k]) if k in ts else "nothing", k))
        # is_valid
        iv = prog.fn(MM + g + "::SigId::is_valid")
        if iv is None:
            res.missing("Y-tab", MM + g + "::SigId::is_valid")
        else:
            res.fn(iv)
            fa = FA(iv, prog)
            v = fa.end_val(0, iv.return_blocks()[0])
            ok = v.op == "call" and v.args[0] == "core::option::Option::<T>::is_some"
            if ok:
                inner = v.args[1][0]    # observer calls carry the receiver's value
                ok = inner.op == "call" and inner.args[0] == MM + g + "::to_id" and inner.args[1][0].op == "arg"
            detail = show(v, fa.names)
            if not ok:
                # the same question asked of the body itself: evaluate is_valid for a descriptor to_id recognises and for one it does not
                try:
                    by_ref = iv.locals[1].get("k") == "ref"
                    ok, detail = ordsem.check_is_valid(prog, MM + g + "::SigId::is_valid", MM + g + "::to_id", MM + g + "::SigId", by_ref)
                except (ordsem.Undecided, ordsem.Panic) as e:
                    detail += " ; Y-sem undecided: %s" % e
            res.ob("Y-tab", "%s | is_valid(s) == to_id(s).is_some()" % g, ok, detail, iv.loc)
        # accessors new/band/attribute
        for name, want in (("new", None), ("band", 0), ("attribute", 1)):
            h = prog.fn(MM + g + "::SigId::" + name)
            if h is None:
                res.missing("Y-tab", MM + g + "::SigId::" + name)
                continue
            res.fn(h)
            ha = FA(h, prog)
            v = ha.end_val(0, h.return_blocks()[0])
            if want is None:
                ok = v.op == "agg" and len(v.args[3]) == 2 and all(x.op == "arg" and x.args[1] == i + 1 for i, x in enumerate(v.args[3]))
            else:
                ok = v.op == "field" and v.args[1] == want and v.args[0].op == "arg"
            res.ob("Y-tab", "%s | SigId::%s is the plain constructor/projection" % (g, name), ok, show(v, ha.names), h.loc)
    return out


def rule_order(prog, res, tables=None):
    """Y-ord: finite case analysis of <SigId as Ord>::cmp; Y-part: partial_cmp == Some(cmp)."""
    for g in GNSS:
        path = "<%s%s::SigId as core::cmp::Ord>::cmp" % (MM, g)
        f = prog.fn(path)
        if f is None:
            res.missing("Y-ord", path)
            continue
        res.fn(f)
        TOID = MM + g + "::to_id"
        # engine 1 (Y-sem): the body evaluated once per consistent ordering of the parts of the two descriptors (ordsem.py)
        sem = None
        try:
            ids = sorted(tables[g][1].values()) if tables and g in tables and tables[g][1] else None
            # the positions to_id can return: from the table Y-tab has just read (else the whole u8 range)
            sem = ordsem.check(prog, path, TOID, MM + g + "::SigId", (ids[0], ids[-1]) if ids else (0, 255))
        except (ordsem.Undecided, ordsem.Panic) as e:
            res.extra.setdefault("ysem_undecided", {})[g] = str(e)[:200]
        if sem is not None:
            probs, runs = sem
            for label, key in (("both recognised", "both recognised: compare positions (l.cmp(r))"),
                               ("unrecognised vs recognised", "unrecognised vs recognised: Greater"),
                               ("recognised vs unrecognised", "recognised vs unrecognised: Less"),
                               ("both unrecognised, bands differ", "both unrecognised, bands differ: follow the band comparison"),
                               ("both unrecognised, same band", "both unrecognised, same band: compare attributes (self.1.cmp(other.1))")):
                pr = probs.get(label)
                res.ob("Y-ord", "%s | %s" % (g, key), pr == [], ("; ".join(pr[:3]) if pr else "every ordering of the parts evaluated [Y-sem, %d runs]" % runs), f.loc,
                       sample="Y-sem")
            res.ob("Y-ord", "%s | no other case" % g, True, "the %d evaluated orderings are all the consistent ones [Y-sem]" % runs, f.loc)
        else:
            _order_template(prog, res, g, f, path, TOID)
        _order_rest(prog, res, g, path)


def _order_template(prog, res, g, f, path, TOID):
    if True:
        fa = FA(f, prog)
        fa.defs(0)
        cases = {}
        bad = []

        def which(t):
            # discr(to_id(*self)) / discr(to_id(*other))
            if t.op == "discr" and t.args[0].op == "call" and t.args[0].args[0] == TOID:
                a = t.args[0].args[1][0]
                x = a
                while x.op in ("memval", "mem", "ref"):
                    x = x.args[0]
                if x.op == "arg":
                    return "l" if x.args[1] == 1 else "r"
            return None

        def self_field(t, i):
            # (*self).i / (*other).i
            x = t
            while x.op in ("ref", "memval"):
                x = x.args[0]
            if x.op == "pf" and x.args[1] == i:
                y = x.args[0]
                if y.op == "mem" and y.args[0].op == "arg":
                    return y.args[0].args[1]
            return None

        for blocks, facts, rv, flist in enum_paths(fa, domain=lambda t: (0, 1) if which(t) else None):
            st = {"l": None, "r": None}
            band_cmp = None
            for t, (k, v) in facts.items():
                w = which(t)
                if w and k == "eq":
                    st[w] = v
                elif t.op == "discr" and t.args[0].op == "call" and t.args[0].args[0] == "core::cmp::impls::<impl core::cmp::Ord for u8>::cmp":
                    c = t.args[0]
                    if self_field(c.args[1][0], 0) == 1 and self_field(c.args[1][1], 0) == 2 and k == "eq":
                        band_cmp = v
                    elif self_field(c.args[1][0], 0) == 1 and self_field(c.args[1][1], 0) == 2 and k == "ne" and set(v) == {0}:
                        band_cmp = "ne"
                    else:
                        bad.append("band comparison with unexpected operands: " + show(c, fa.names))
            key = (st["l"], st["r"], band_cmp)
            cases.setdefault(key, []).append(rv)
        names = fa.names

        def only(key):
            v = cases.get(key, [])
            return v[0] if len(v) == 1 else None

        def is_ord(t, name):
            return t is not None and t.op == "agg" and t.args[0] == "core::cmp::Ordering" and t.args[2] == name
        # (Some, Some): u8::cmp(l, r)
        v = only((1, 1, None))
        ok = False
        if v is not None and v.op == "call" and v.args[0] == "core::cmp::impls::<impl core::cmp::Ord for u8>::cmp":
            def payload_side(a):
                x = a
                while x.op in ("ref",):
                    x = x.args[0]
                if x.op == "loc":
                    x = fa.val(x.args[1], (v.args[3], 10 ** 6))
                if x.op == "field" and x.args[1] == 0 and x.args[0].op == "downcast" and x.args[0].args[1] == 1:
                    c = x.args[0].args[0]
                    w = which(mk("discr", c))
                    return w
                return None
            ok = payload_side(v.args[1][0]) == "l" and payload_side(v.args[1][1]) == "r"
        res.ob("Y-ord", "%s | both recognised: compare positions (l.cmp(r))" % g, ok, show(v, names) if v is not None else str(cases.get((1, 1, None))), f.loc,
               sample=show(v, names) if v is not None else None)
        res.ob("Y-ord", "%s | unrecognised vs recognised: Greater" % g, is_ord(only((0, 1, None)), "Greater"), str(cases.get((0, 1, None))), f.loc)
        res.ob("Y-ord", "%s | recognised vs unrecognised: Less" % g, is_ord(only((1, 0, None)), "Less"), str(cases.get((1, 0, None))), f.loc)
        adt = prog.adts.get("core::cmp::Ordering")
        # Ordering discriminants: Less=-1 (255 as u8 / i8), Equal=0, Greater=1
        lessv = [k for k in cases if k[0] == 0 and k[1] == 0 and k[2] not in (0, 1, None, "ne")]
        okband = len(lessv) == 1 and is_ord(only(lessv[0]), "Less") and is_ord(only((0, 0, 1)), "Greater")
        passthrough = False
        if not okband and (0, 0, "ne") in cases and not lessv and (0, 0, 1) not in cases:
            # `a.cmp(b).then_with(..)` style: when the band comparison is not Equal its own result is returned
            v = only((0, 0, "ne"))
            passthrough = v is not None and v.op == "call" and v.args[0] == "core::cmp::impls::<impl core::cmp::Ord for u8>::cmp" \
                and self_field(v.args[1][0], 0) == 1 and self_field(v.args[1][1], 0) == 2
            okband = passthrough
        res.ob("Y-ord", "%s | both unrecognised, bands differ: follow the band comparison" % g, okband,
               "less-case=%s greater-case=%s pass-through=%s" % ([cases[k] for k in lessv], cases.get((0, 0, 1)), cases.get((0, 0, "ne"))), f.loc)
        v = only((0, 0, 0))
        ok = v is not None and v.op == "call" and v.args[0] == "core::cmp::impls::<impl core::cmp::Ord for char>::cmp" \
            and self_field(v.args[1][0], 1) == 1 and self_field(v.args[1][1], 1) == 2
        res.ob("Y-ord", "%s | both unrecognised, same band: compare attributes (self.1.cmp(other.1))" % g, ok,
               show(v, names) if v is not None else str(cases.get((0, 0, 0))), f.loc)
        known = {(1, 1, None), (0, 1, None), (1, 0, None), (0, 0, 0), (0, 0, 1)} | set(lessv) | ({(0, 0, "ne")} if passthrough else set())
        extra = [k for k in cases if k not in known]
        res.ob("Y-ord", "%s | no other case" % g, not extra and not bad, "extra cases %s %s" % (extra, bad), f.loc)


def _order_rest(prog, res, g, path):
    if True:
        # Y-part
        pp = "<%s%s::SigId as core::cmp::PartialOrd>::partial_cmp" % (MM, g)
        h = prog.fn(pp)
        if h is None:
            res.missing("Y-part", pp)
            return
        res.fn(h)
        ha = FA(h, prog)
        ha.defs(0)
        okp = True
        vals = []
        for blocks, facts, rv, flist in enum_paths(ha):
            vals.append(show(rv, ha.names))
            c = rv.args[3][0] if rv.op == "agg" and rv.args[2] == "Some" and rv.args[3] else None
            if not (c is not None and c.op == "call" and c.args[0] == path and
                    _argn(c.args[1][0]) == 1 and _argn(c.args[1][1]) == 2):
                okp = False
        res.ob("Y-part", "%s | partial_cmp(a, b) == Some(cmp(a, b))" % g, okp and vals, "; ".join(vals[:3]), h.loc, sample=vals[:1])
        # derived Eq/PartialEq (consistency with cmp == Equal needs injectivity, checked in Y-tab)
        der = [i for i in prog.impls if i["self"].get("path") == MM + g + "::SigId" and i["trait"] in ("core::cmp::PartialEq", "core::cmp::Eq")]
        res.ob("Y-ord", "%s | PartialEq/Eq are derived (structural equality)" % g, len(der) == 2 and all(i["derived"] for i in der),
               "%s" % [(i["trait"], i["derived"]) for i in der])


def _argn(t):
    x = t
    while x.op in ("ref", "mem", "memval"):
        x = x.args[0]
    return x.args[1] if x.op == "arg" else None
