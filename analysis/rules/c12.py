"""C12: a builder's output depends only on the message, not on what it built before."""
import builder

META = {
    "level": "other",
    "trusted_base": ["slice::IterMut visits every element once", "buildsem.py (abstract interpreter; encoders and put as uninterpreted writers of the window)",
                     "rustc MIR construction", "mirfacts exporter"],
    "explanation": "Typestate CLEAN = 'data[3..1026] is zero and data[0] = 0xD3'. new() establishes CLEAN with has_run = false (T-new); in "
                   "build_message every path to the assembler passes clear_data(self) or the edge has_run == false (T-gate: must-pass-through "
                   "with those edges deleted); has_run = true is stored before the assembler exists, so failed builds are dirty too (T-set); "
                   "clear_data zeroes a range covering the whole assembler window and not byte 0 (T-clear); besides the assembler only the two "
                   "length bytes and three CRC bytes are stored, all on every successful build, never index 0 (T-writes, T-pre). Encoders receive "
                   "only &Message and &mut Assembler (type level), so the frame is a function of the message alone. Since round 2 these clauses are decided "
                   "semantically first (W-sem: abstract interpretation of build_message over has_run x number() x variant x call outcomes x bit length "
                   "mod 8, 1948 paths, with the wipe interpreted byte by byte); the template rules above remain as cross-check and as fallback for code "
                   "outside the interpreter's modelled subset. (B-sem) put writes exactly the field's bits inside the "
                   "window and nothing else: C07's abstract interpretation of put, imported and decided here too.",
    "assumptions": ["has_run == false implies CLEAN is an invariant because false is stored only by new()"],
}


def run(ctx, res):
    prog = ctx.prog("K0")
    builder.rules_new_clear(prog, res)
    m = builder.BuildModel(prog, res)
    builder.rules_typestate(prog, res, m)
    import bitio
    bitio.import_transport(prog, res, signed=False, which=("put",))
    builder.rules_frame_shape(prog, res, m)
    if ctx.tier == "thorough":
        # the test-vector generator path shares the buffer discipline (default feature set only)
        k1 = ctx.prog("K1")
        m2 = builder.BuildModel(k1, res, path=builder.MB + "::build_generated_message")
        builder.rules_typestate(k1, res, m2, tag="build_generated")
        builder.rules_frame_shape(k1, res, m2, tag="build_generated")
