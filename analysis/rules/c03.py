"""C03: a frame is accepted iff preamble, length and CRC-24Q all check out."""
import framing
import crcq

META = {
    "level": "other",
    "trusted_base": ["crc-any's digest loop (table-driven polynomial division); its table and parameters are checked",
                     "rustc MIR construction", "mirfacts exporter"],
    "explanation": "Term dataflow over MessageFrame::new (loop-free): the set of branch facts dominating the single Ok return is "
                   "exactly {preamble == 0xD3, len >= L+6, stored CRC == computed CRC} (+ an early len >= 6), L has bit provenance "
                   "((fd[1]&3)<<8)|fd[2], one crc24lte_a object digests fd[0..L+3], the compare covers all 24 bits of fd[L+3..L+5], "
                   "each failing arm returns the documented error, the Ok aggregate holds fd[..L+6], fd[3..L+3], the compared CRC; "
                   "accessors return those fields; crc-any's crc24lte_a table equals the CRC-24Q table. For every L in 0..1023 "
                   "(all values of a 10-bit provenance) this is the iff of the property, given the trusted digest loop.",
    "assumptions": ["crc-any 2.5.1 digest/get_crc implement MSB-first table-driven division for by_table && !reflect"],
}


def run(ctx, res):
    prog = ctx.prog("K0")
    m = framing.rules_new(prog, res)
    if m.ok and len(m.oks) == 1:
        framing.rule_n_pres(prog, res, m)
    crcq.rule_a_crc(ctx, res)
    # the acceptance predicate is the property only if every MessageFrame a caller can get hold of went through it: frames are built only by
    # MessageFrame::new (no second constructor that skips the checks), and the iterator hands on exactly the scanner's frame
    import bitio, engine as _eng
    bitio.rule_p_pre(prog, _eng.Filtered(res, {"P-pre"}, key_contains={"P-pre": ("MessageFrame values are built only",)}))
    framing.rules_iter(prog, _eng.Filtered(res, {"I-iter", "I-state"}))

