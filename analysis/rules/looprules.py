"""Completeness of loops: an iteration that is not refused performs the action.

Many rules say what an action does (which value is pushed, written, OR-ed into a mask).  What they do not say by themselves is that the action is
performed for every row: a `continue`, a filter or a look-ahead in front of it silently drops rows.  `action_complete` decides the missing half on
the control-flow graph: inside the innermost loop around the action, every path from the loop head back to the loop head passes the action, except
through edges the caller names as legitimate skips (e.g. "the signal id is not in the table").  Paths that leave the function (an error return
through `?`) or the loop are not iterations that complete, so they are not constrained."""


def innermost_loop(f, block):
    loops = f.loops()
    inner = None
    for h, body in loops.items():
        if block in body and (inner is None or len(body) < len(loops[inner])):
            inner = h
    return inner


def action_complete(f, fa, action_block, allowed_edge=None):
    """-> (ok, detail).  allowed_edge(x, s) is True for edges x -> s that may legitimately skip the action."""
    h = innermost_loop(f, action_block)
    if h is None:
        return True, "not in a loop"
    body = f.loops()[h]
    latches = {s for (s, hh) in f.back_edges() if hh == h}
    seen = set()
    st = [(h, None)]
    while st:
        y, via = st.pop()
        if y in seen or y == action_block or y not in body:
            continue
        seen.add(y)
        for z in f.succ(y):
            if allowed_edge is not None and allowed_edge(y, z):
                continue
            if z == h and y in latches:
                t = f.term(via if via is not None else y)
                return False, "an iteration can return to the loop head (from block %d) without performing the action; last branch at line %s" % (
                    y, t.get("line"))
            st.append((z, y if f.term(y)["k"] == "switch" else via))
    return True, "every completed iteration passes block %d" % action_block
