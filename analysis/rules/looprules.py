"""Completeness of loops: an iteration that is not refused performs the action.

Many rules say what an action does (which value is pushed, written, OR-ed into a mask).  What they do not say by themselves is that the action is
performed for every row: a `continue`, a filter or a look-ahead in front of it silently drops rows.  `action_complete` decides the missing half on
the control-flow graph: inside the innermost loop around the action, every path from the loop head back to the loop head passes the action, except
through edges the caller names as legitimate skips (e.g. "the signal id is not in the table").  Paths that leave the function (an error return
through `?`) or the loop are not iterations that complete, so they are not constrained."""


def innermost_loop(f, block):
    loops = f.loops()
    inner = None
    for h, body in loops.items():
        if block in body and (inner is None or len(body) < len(loops[inner])):
            inner = h
    return inner


def action_complete(f, fa, action_block, allowed_edge=None):
    """-> (ok, detail).  allowed_edge(x, s) is True for edges x -> s that may legitimately skip the action."""
    h = innermost_loop(f, action_block)
    if h is None:
        return True, "not in a loop"
    body = f.loops()[h]
    latches = {s for (s, hh) in f.back_edges() if hh == h}
    seen = set()
    st = [(h, None)]
    while st:
        y, via = st.pop()
        if y in seen or y == action_block or y not in body:
            continue
        seen.add(y)
        for z in f.succ(y):
            if allowed_edge is not None and allowed_edge(y, z):
                continue
            if z == h and y in latches:
                t = f.term(via if via is not None else y)
                return False, "an iteration can return to the loop head (from block %d) without performing the action; last branch at line %s" % (
                    y, t.get("line"))
            st.append((z, y if f.term(y)["k"] == "switch" else via))
    return True, "every completed iteration passes block %d" % action_block


def only_mutated_by(f, local, allowed_blocks):
    """The local (the list being built) is mutated only by the calls ending the blocks in `allowed_blocks`: every `&mut local..` borrow (through
    one level of re-borrowing) is an argument of one of those calls, nothing is stored into its fields, and it is not handed by value to a call.
    -> (ok, detail)"""
    rec = f.rec
    refs = {}          # ref local -> block of the borrow
    for bi, blk in enumerate(rec["blocks"]):
        if blk.get("cleanup"):
            continue
        for st in blk["stmts"]:
            if st["k"] != "assign":
                continue
            rv, pl = st["rv"], st["place"]
            if pl["local"] == local and pl["proj"]:
                return False, "a field / element of the list is assigned directly (line %s)" % st.get("line")
            if rv["k"] in ("ref", "rawptr") and rv.get("mut") and rv["place"]["local"] == local:
                if pl["proj"]:
                    return False, "a mutable borrow of the list is stored away (line %s)" % st.get("line")
                refs[pl["local"]] = bi
    # re-borrows  r2 = &mut *r1
    changed = True
    while changed:
        changed = False
        for bi, blk in enumerate(rec["blocks"]):
            for st in blk["stmts"]:
                if st["k"] == "assign" and st["rv"]["k"] in ("ref", "rawptr") and st["rv"].get("mut") and st["rv"]["place"]["local"] in refs \
                        and not st["place"]["proj"] and st["place"]["local"] not in refs:
                    refs[st["place"]["local"]] = bi
                    changed = True
                if st["k"] == "assign" and st["rv"]["k"] == "use" and st["rv"]["op"].get("k") in ("move", "copy") and not st["rv"]["op"]["place"]["proj"] \
                        and st["rv"]["op"]["place"]["local"] in refs and not st["place"]["proj"] and st["place"]["local"] not in refs:
                    refs[st["place"]["local"]] = bi
                    changed = True
    for bi, blk in enumerate(rec["blocks"]):
        if blk.get("cleanup"):
            continue
        t = blk["term"]
        if t["k"] != "call":
            continue
        for a in t.get("args", []):
            if a.get("k") in ("move", "copy") and not a["place"]["proj"]:
                if a["place"]["local"] in refs and bi not in allowed_blocks:
                    return False, "the list is also mutated by %s (line %s)" % (t.get("resolved") or t.get("callee"), t.get("line"))
                if a["place"]["local"] == local:
                    return False, "the list is handed by value to %s (line %s)" % (t.get("resolved") or t.get("callee"), t.get("line"))
    return True, "%d mutable borrows, all feeding the allowed call(s)" % len(refs)
