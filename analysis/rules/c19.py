"""C19: every message feature can be selected on its own, with or without std."""
import random
import dispatch
import matrix

META = {
    "level": "proof",
    "exhaustive": True,
    "trusted_base": ["rustc's type checker and name resolution (`#![no_std]` makes any std:: path an error)", "cargo feature resolution", "mirfacts exporter"],
    "explanation": "Each configuration is type-checked by `cargo +nightly check --lib --no-default-features --features <f>` with the driver attached: "
                   "the empty selection, every msgNNNN feature read from Cargo.toml (108), and all_msgs without std (110 configurations; quick and "
                   "thorough). Obligations per configuration: it builds (V-build); the std crate is not linked (V-nostd); the dispatch tables extracted "
                   "from that build have exactly the arm n for decode, number() and encode, every other number falling to MsgNotSupported (V-disp); and "
                   "the resolved MIR of every function reachable from msgn's decoder and encoder hashes equal to the same function in the full build "
                   "(V-same: 'decodes to the same message as the full build' decided as 'is the same resolved code', which also catches glob imports "
                   "resolving differently when sibling modules are absent). Thorough adds +serde for a seeded sample of features and +std.",
    "assumptions": ["type-check only: no bare-metal target is installed, linking is not attempted"],
}


def run(ctx, res):
    feats, msgs = dispatch.cargo_features(ctx.repo)
    configs = {"empty": ["--no-default-features"], "all_msgs_nostd": ["--no-default-features", "--features", "all_msgs"]}
    for m in msgs:
        configs[m] = ["--no-default-features", "--features", m]
    if ctx.tier == "thorough":
        rnd = random.Random(ctx.seed)
        for m in sorted(rnd.sample(msgs, min(12, len(msgs)))):
            configs[m + "+serde"] = ["--no-default-features", "--features", m + ",serde"]
            configs[m + "+std"] = ["--no-default-features", "--features", m + ",std"]
        configs["empty+serde"] = ["--no-default-features", "--features", "serde"]
    res.floor("V-build", "single-feature configurations", len(msgs), 108)
    full = ctx.prog("K0")
    full_hashes = {p: matrix.fn_hash(f) for p, f in full.fns.items()}
    out = matrix.run_matrix(ctx, configs)
    res.extra["configurations"] = len(configs)
    nsame = 0
    for k in sorted(configs):
        r = out.get(k)
        if r is None or "error" in r:
            res.ob("V-build", "%s | type-checks" % k, False, (r or {}).get("error", "no result"))
            continue
        res.ob("V-build", "%s | type-checks" % k, True, "", sample={"config": k, "functions": r["functions"]} if k in ("empty", "msg1077") else None)
        if "+std" not in k:
            res.ob("V-nostd", "%s | the standard library is not linked" % k, "std" not in r["extern_crates"], "extern crates: %s" % r["extern_crates"],
                   sample={"config": k, "extern_crates": r["extern_crates"]} if k == "msg1005" else None)
        base = k.split("+")[0]
        if base in ("empty",):
            want = []
        elif base == "all_msgs_nostd":
            want = sorted(int(m[3:]) for m in msgs)
        else:
            want = [int(base[3:])]
        ok = r["decode_arms"] == want and r["number_arms"] == want and r["encode_arms"] == want and r["variants"] == want and not r["dispatch_problems"]
        res.ob("V-disp", "%s | decode / number / encode tables have exactly the arms %s" % (k, want if len(want) < 3 else "of all features"), ok,
               "decode %s number %s encode %s variants %s problems %s" % (r["decode_arms"][:3] if r["decode_arms"] else r["decode_arms"], r["number_arms"][:3],
                                                                          r["encode_arms"][:3], r["variants"][:3], r["dispatch_problems"]),
               sample={"config": k, "arms": want} if k == "msg1077" else None)
        # V-same
        diff = [p for p, h in r.get("hashes", {}).items() if full_hashes.get(p) != h]
        nsame += len(r.get("hashes", {}))
        if "serde" in k:
            # serde adds derive impls but must not change the codec functions either
            pass
        res.ob("V-same", "%s | every function reachable from its codec is the same resolved code as in the full build" % k, not diff,
               "%d differing: %s" % (len(diff), diff[:3]), sample={"config": k, "functions_compared": len(r.get("hashes", {}))} if k == "msg1077" else None)
    res.extra["functions_compared"] = nsame
