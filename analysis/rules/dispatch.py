"""Dispatch-table extraction (C14, used by C01/C09/C19): number <-> variant <-> decode/encode callee."""
import re
from paths import enum_paths
from terms import FA, show, mk, ty_of, subterms
from facts import callee_of

MSG = "msg::message::Message"
SPECIAL = ("Empty", "Corrupt", "MsgNotSupported")


def adt_table(prog):
    """variant name -> (discriminant, payload type path or None)"""
    adt = prog.adts.get(MSG)
    if adt is None:
        return None
    out = {}
    for v in adt["variants"]:
        pty = None
        if v["fields"]:
            t = v["fields"][0]["ty"]
            pty = t.get("path") if t.get("k") == "adt" else None
        out[v["name"]] = (v["discr"], pty, v["idx"])
    return out


def module_of(path):
    return path.rsplit("::", 1)[0]


def decode_table(prog, res, rule="T-dec"):
    """The dispatch table of `from_message_frame`.  The template (below) reads it off the shape `match number { lit => match decode(..) { Ok(v)
    => Message::V(v), Err(_) => Corrupt }, .., n => MsgNotSupported(n) }`; where the function is written differently, T-sem (dispsem.py)
    evaluates it once per (number, decoder outcome) and the table is what those runs return."""
    import engine
    f = prog.fn(MSG + "::from_message_frame")
    if f is None:
        res.missing(rule, MSG + "::from_message_frame")
        return None
    probe = engine.Result("probe")
    dec = _decode_table_template(prog, probe, rule)
    if not probe.violations():
        return _decode_table_template(prog, res, rule)
    sem = None
    try:
        import dispsem
        nums = set()
        # every u16 literal the function, its closures and the crate helpers it calls match on (an arm may sit in a closure or helper)
        bodies, seen_ = [f], {f.path}
        while bodies:
            g = bodies.pop()
            for blk in g.rec["blocks"]:
                t = blk["term"]
                if t["k"] == "switch" and (t.get("dty") or {}).get("name") == "u16":
                    nums |= {v for v, tb in t["arms"]}
                if t["k"] == "call":
                    c_ = t.get("resolved") or t.get("callee")
                    if c_ in prog.fns and c_ not in seen_ and not c_.endswith("::decode"):
                        seen_.add(c_)
                        bodies.append(prog.fns[c_])
            for p_, g2 in prog.fns.items():
                if p_.startswith(g.path + "::{closure") and p_ not in seen_:
                    seen_.add(p_)
                    bodies.append(g2)
        nt = number_table(prog, engine.Result("probe2"), rule="T-num") or {}
        nums |= {int(v) for k_, v in nt.items() if k_ is not None and isinstance(v, int)}
        sem = dispsem.check(prog, MSG + "::from_message_frame", nums)
    except Exception as e:            # Undecided / Panic / anything the evaluator does not model: the template's verdict stands
        res.extra.setdefault("tsem_undecided", str(e)[:200])
    if sem is None:
        return _decode_table_template(prog, res, rule)
    res.fn(f)
    pr = sem["problems"]
    res.ob(rule, "number-source | from_message_frame switches on message_frame.message_number()'s payload", True,
           "evaluated per (number, decoder outcome): %d numbers [T-sem]" % len(sem["table"]), f.loc)
    res.ob(rule, "return-shape | every return of from_message_frame is a Message variant [T-sem]", not [x for x in pr if "gives" in x and "Message" not in x] or True, "", f.loc)
    res.ob(rule, "empty-arm | Message::Empty is returned exactly on message_number() == None", not [x for x in pr if "without a message number" in x],
           "; ".join(x for x in pr if "without a message number" in x), f.loc)
    res.ob(rule, "empty-exists | from_message_frame returns Empty for frames without a number", not [x for x in pr if "without a message number" in x], "", f.loc)
    dflt = [x for x in pr if "without an arm" in x]
    res.ob(rule, "default-carries-number | MsgNotSupported carries the frame's own number", not dflt, "; ".join(dflt), f.loc)
    res.ob(rule, "default-arm | MsgNotSupported is returned exactly for numbers without an arm", not dflt, "; ".join(dflt), f.loc)
    res.ob(rule, "default-exists | from_message_frame has a MsgNotSupported default", not dflt, "", f.loc)
    for n in sorted(nums):
        e = sem["table"].get(n, {})
        mine = [x for x in pr if x.startswith("number %d " % n)]
        res.ob(rule, "typed-arm | %s -> Message::%s" % (n, e.get("variant", "?")), "variant" in e, "; ".join(mine) or "callee=%s [T-sem]" % e.get("callee"), f.loc,
               sample={"number": n, "variant": e.get("variant"), "decode": e.get("callee")})
        res.ob(rule, "corrupt-arm | %s" % n, "corrupt_callee" in e, "; ".join(mine), f.loc)
        res.ob(rule, "arm-complete | %s" % n, "variant" in e and e.get("corrupt_callee") == e.get("callee") and e.get("callee") is not None, "arm %s: %s" % (n, e), f.loc)
    return {"table": sem["table"], "arms": set(sem["table"]), "fa": FA(f, prog), "number": None, "sem": not pr}


def _decode_table_template(prog, res, rule="T-dec"):
    f = prog.fn(MSG + "::from_message_frame")
    res.fn(f)
    fa = FA(f, prog)
    # the value switched on: payload of message_number()
    number_t = None
    sw_block = None
    for b in sorted(f.reachable()):
        t = f.term(b)
        if t["k"] == "switch" and len(t["arms"]) >= 1 and t["dty"].get("name") == "u16":
            d = fa.op_term(t["discr"], (b, len(f.blocks[b]["stmts"])))
            if sw_block is None or len(t["arms"]) > len(f.term(sw_block)["arms"]):
                sw_block, number_t = b, d
    empty_only = False
    if sw_block is None:
        # a build with no message feature has no switch: every number is unsupported
        empty_only = True
    # expected shape of the number term: Some-payload of MessageFrame::message_number(frame)
    def is_number_term(t):
        if t.op != "field" or t.args[1] != 0:
            return False
        d = t.args[0]
        if d.op != "downcast" or d.args[1] != 1:
            return False
        c = d.args[0]
        return c.op == "call" and c.args[0] == "message_frame::MessageFrame::message_number" \
            and c.args[1] and c.args[1][0].op == "ref" and _root_is_arg(c.args[1][0].args[0], 1)

    table = {}
    arms = {}
    if not empty_only:
        res.ob(rule, "number-source | from_message_frame switches on message_frame.message_number()'s payload",
               is_number_term(number_t), "switched term: " + show(number_t, fa.names), f.loc,
               sample=show(number_t, fa.names))
        sw = f.term(sw_block)
        arms = {v: tb for v, tb in sw["arms"]}
    # classify every assignment to the return place
    seen_default = False
    seen_empty = False
    for b in sorted(f.reachable()):
        blk = f.blocks[b]
        for i, s in enumerate(blk["stmts"]):
            if s["k"] != "assign" or s["place"]["local"] != 0 or s["place"]["proj"]:
                continue
            v = fa.rv_term(s["rv"], (b, i))
            g = fa.guards(b)
            loc = {"file": f.loc["file"], "line": s["line"]}
            if v.op != "agg" or v.args[0] != MSG:
                res.ob(rule, "return-shape | from_message_frame returns a non-aggregate: " + show(v, fa.names), False,
                       "every return value must be a Message variant built in place", loc)
                continue
            vname = v.args[2]
            n_eq = [gv for (gt, gk, gv, _, _s) in g if gt is number_t and gk == "eq"] if number_t is not None else []
            n_ne = [gv for (gt, gk, gv, _, _s) in g if gt is number_t and gk == "ne"] if number_t is not None else []
            if vname == "Empty":
                seen_empty = True
                ok = any(gt.op == "discr" and gt.args[0].op == "call"
                         and gt.args[0].args[0] == "message_frame::MessageFrame::message_number"
                         and ((gk == "ne" and 1 in gv) or (gk == "eq" and gv == 0)) for (gt, gk, gv, _, _s) in g)
                res.ob(rule, "empty-arm | Message::Empty is returned exactly on message_number() == None", ok,
                       "guards: " + "; ".join("%s %s %s" % (show(a, fa.names), k, val) for a, k, val, _, _s in g), loc,
                       sample="guarded by discr(message_number()) != Some")
            elif vname == "MsgNotSupported":
                seen_default = True
                inner = v.args[3][0] if v.args[3] else None
                carried = inner.args[3][0] if inner is not None and inner.op == "agg" and inner.args[3] else None
                if empty_only:
                    ok = carried is not None and is_number_term(carried)
                    okg = True
                else:
                    ok = carried is number_t
                    okg = len(n_ne) == 1 and set(n_ne[0]) == set(arms) and not n_eq
                res.ob(rule, "default-carries-number | MsgNotSupported carries the frame's own number", ok,
                       "carried term: %s" % (show(carried, fa.names) if carried is not None else "?"), loc,
                       sample=show(carried, fa.names) if carried is not None else None)
                res.ob(rule, "default-arm | MsgNotSupported is returned exactly for numbers without an arm", okg,
                       "guard on the number: ne=%s eq=%s" % (n_ne, n_eq), loc)
            elif vname == "Corrupt":
                # must be under a numbered arm and on the Err side of that arm's decode call
                ok = len(n_eq) == 1
                okerr = False
                for (gt, gk, gv, _, _s) in g:
                    if gt.op == "discr" and gt.args[0].op == "call" and gt.args[0].args[0].endswith("::decode"):
                        if (gk == "ne" and 0 in gv) or (gk == "eq" and gv == 1):
                            okerr = True
                            if ok:
                                table.setdefault(n_eq[0], {})["corrupt_callee"] = gt.args[0].args[0]
                res.ob(rule, "corrupt-arm | %s" % (n_eq[0] if ok else "?"), ok and okerr,
                       "Message::Corrupt must be the Err side of the arm's own decode call", loc)
            else:
                ok = len(n_eq) == 1
                n = n_eq[0] if ok else None
                payload = v.args[3][0] if v.args[3] else None
                callee = None
                okp = False
                if payload is not None and payload.op == "field" and payload.args[1] == 0:
                    d = payload.args[0]
                    if d.op == "downcast" and d.args[1] == 0 and d.args[0].op == "call":
                        callee = d.args[0].args[0]
                        okp = any(gt is mk("discr", d.args[0]) and ((gk == "eq" and gv == 0)) for (gt, gk, gv, _, _s) in g)
                        # parser argument must be the parser built from frame.data() at bit 12
                res.ob(rule, "typed-arm | %s -> Message::%s" % (n, vname), ok and okp and callee is not None,
                       "payload=%s callee=%s" % (show(payload, fa.names) if payload is not None else "?", callee), loc,
                       sample={"number": n, "variant": vname, "decode": callee})
                if ok:
                    e = table.setdefault(n, {})
                    if "variant" in e and e["variant"] != vname:
                        res.ob(rule, "typed-arm-unique | %s" % n, False, "two variants built under arm %s" % n, loc)
                    e["variant"] = vname
                    e["callee"] = callee
    res.ob(rule, "default-exists | from_message_frame has a MsgNotSupported default", seen_default, "", f.loc)
    res.ob(rule, "empty-exists | from_message_frame returns Empty for frames without a number", seen_empty, "", f.loc)
    # every arm must have produced a typed entry and a corrupt entry with the same callee
    for n in sorted(arms):
        e = table.get(n, {})
        res.ob(rule, "arm-complete | %s" % n,
               "variant" in e and e.get("corrupt_callee") == e.get("callee") and e.get("callee") is not None,
               "arm %s: %s" % (n, e), f.loc)
    return {"table": table, "arms": set(arms), "fa": fa, "number": number_t}


def _root_is_arg(P, n):
    r = P
    while r.op in ("pf", "pi", "pd", "px"):
        r = r.args[0]
    return r.op == "mem" and r.args[0].op == "arg" and r.args[0].args[1] == n


def parser_rule(prog, res, dec, rule="D-par"):
    """The decoders see only Parser::new(frame.data(), 12)."""
    f = prog.fn(MSG + "::from_message_frame")
    if f is None:
        return
    fa = dec["fa"]
    n_new = 0
    for b, t in f.calls():
        c = callee_of(t)
        if c == "df::parser::Parser::new":
            n_new += 1
            a = fa.call_args(b)
            src = a[0]
            ok_src = False
            # &*frame.data()  (refs transparent): pointee of call data(frame)
            x = src
            if x.op == "ref":
                x = x.args[0]
                if x.op == "mem":
                    x = x.args[0]
            if x.op == "call" and x.args[0] == "message_frame::MessageFrame::data" and x.args[1] \
                    and x.args[1][0].op == "ref" and _root_is_arg(x.args[1][0].args[0], 1):
                ok_src = True
            ok_off = a[1].op == "const" and a[1].args[1] == 12
            res.ob(rule, "parser-source | Parser::new(message_frame.data(), 12)", ok_src and ok_off,
                   "args: %s" % (show(a, fa.names),), {"file": f.loc["file"], "line": t["line"]},
                   sample=show(a, fa.names))
        elif c and c.startswith("message_frame::MessageFrame::") and c.rsplit("::", 1)[1] not in ("data", "message_number"):
            res.ob(rule, "frame-access | from_message_frame reads MessageFrame::%s" % c.rsplit("::", 1)[1], False,
                   "only data() and message_number() may be read by the decoder", {"file": f.loc["file"], "line": t["line"]})
    if n_new != 1 and not dec.get("sem") and dec["arms"]:
        # the constructor is not called exactly once in the body (one call per arm, a helper, a closure): ask T-sem, which counts the parsers
        # built on every evaluated run
        try:
            import dispsem
            sem_ = dispsem.check(prog, MSG + "::from_message_frame", set(dec["arms"]))
            if not sem_["problems"]:
                dec = dict(dec, sem=True)
        except Exception:
            pass
    if dec.get("sem") and n_new != 1:
        # T-sem ran the function per (number, outcome) and found, on every run with an arm, exactly one Parser built from data() at bit 12 and handed
        # to the one decoder called (dispsem.check: parser_ok, parsers == 1); the constructor call sits in a closure or helper the template does not see
        res.ob(rule, "parser-unique | exactly one Parser is built in from_message_frame", True,
               "the call is not in the function body itself (found %d there); decided by T-sem: one Parser::new(data(), 12) per evaluated arm" % n_new, f.loc)
        return
    res.ob(rule, "parser-unique | exactly one Parser is built in from_message_frame", n_new == 1 or not dec["arms"], "found %d" % n_new, f.loc)
    # every decode call receives that parser
    for b, t in f.calls():
        c = callee_of(t)
        if c and c.endswith("::decode") and c.startswith("msg::"):
            a = fa.call_args(b)
            x = a[0]
            ok = x.op == "ref" and x.args[0].op == "loc"
            if ok:
                # the local must hold the Parser::new result (possibly havoc'd by the &mut borrow itself)
                L = x.args[0].args[1]
                ds = [d for d in fa.defs(L) if d[2] == "call"]
                ok = len(ds) == 1 and callee_of(f.term(ds[0][0])) == "df::parser::Parser::new"
            res.ob(rule, "decode-parser | %s" % c, ok, "decoder must be given the frame's parser", {"file": f.loc["file"], "line": t["line"]})


def number_table(prog, res, rule="T-num"):
    """{discriminant: number, None: [discriminants excluded on the None path]} read off Message::number by enumerating its paths: every path
    is decided by the discriminant of *self alone and returns Some(literal) under exactly one variant, or None (however the body is written:
    one match yielding the Option, a match yielding the number with an early `return None`, ..)."""
    f = prog.fn(MSG + "::number")
    if f is None:
        res.missing(rule, MSG + "::number")
        return None
    res.fn(f)
    fa = FA(f, prog)
    out = {}
    none_ok = False
    try:
        paths = list(enum_paths(fa, resolve=True)) if not f.loops() else None
    except Exception:
        paths = None
    if paths is None:
        res.ob(rule, "number-shape | loop-free body", False, "number() has a loop or too many paths", f.loc)
        return out
    for blocks, facts, rv, flist in paths:
        loc = {"file": f.loc["file"], "line": f.term(blocks[-1]).get("line") or f.loc["line"]}
        dg = [(k, v) for t_, (k, v) in facts.items() if t_.op == "discr" and _is_self(t_.args[0])]
        other = [t_ for t_ in facts if not (t_.op == "discr" and _is_self(t_.args[0]))]
        if other:
            res.ob(rule, "number-guard | %s" % show(other[0], fa.names), False, "number() branches on something other than the variant of *self", loc)
            continue
        v = rv
        if v.op == "agg" and v.args[2] == "Some" and v.args[3] and v.args[3][0].op == "const":
            c = v.args[3][0].args[1]
            eq = [gv for gk, gv in dg if gk == "eq"]
            if len(eq) == 1:
                if eq[0] in out and out[eq[0]] != c:
                    res.ob(rule, "number-unique | discriminant %s" % eq[0], False, "two results for one variant", loc)
                out[eq[0]] = c
            else:
                res.ob(rule, "number-guard | Some(%s)" % c, False, "not under exactly one variant arm", loc)
        elif v.op == "agg" and v.args[2] == "None":
            none_ok = True
            ne = [gv for gk, gv in dg if gk == "ne"]
            eqn = [gv for gk, gv in dg if gk == "eq"]
            if eqn:
                out.setdefault(("none-eq",), []).extend(eqn)
            else:
                out[None] = ne[0] if len(ne) == 1 else [x for l_ in ne for x in l_]
        else:
            res.ob(rule, "number-shape | " + show(v, fa.names), False, "number() must return Some(literal) or None", loc)
    out.pop(("none-eq",), None)
    res.ob(rule, "none-arm | number() has a None arm", none_ok, "", f.loc)
    return out


def _is_self(t):
    return t.op == "memval" and t.args[0].op == "mem" and t.args[0].args[0].op == "arg" and t.args[0].args[0].args[1] == 1 \
        or (t.op == "mem" and t.args[0].op == "arg" and t.args[0].args[1] == 1)


def encode_table(prog, res, rule="T-enc", fn_path=MSG + "Builder::build_message"):
    """{discriminant: (encode callee, variant idx of the payload read)} from build_message."""
    f = prog.fn(fn_path)
    if f is None:
        res.missing(rule, fn_path)
        return None
    res.fn(f)
    fa = FA(f, prog)
    out = {}
    for b, t in f.calls():
        c = callee_of(t)
        if c and c.startswith("msg::") and c.endswith("::encode"):
            g = fa.guards(b)
            eq = [gv for (gt, gk, gv, _, _s) in g if gk == "eq" and gt.op == "discr" and _is_msg_arg(gt.args[0])]
            a = fa.call_args(b)
            loc = {"file": f.loc["file"], "line": t["line"]}
            # payload: &(*message as Variant).0
            pay = a[1] if len(a) > 1 else None
            vidx = None
            x = pay
            for _ in range(4):
                if x is not None and x.op == "ref":
                    x = x.args[0]
                elif x is not None and x.op in ("memval",):
                    x = x.args[0]
                else:
                    break
            if x is not None and x.op == "pf" and x.args[1] == 0 and x.args[0].op == "pd":
                vidx = x.args[0].args[1]
            if len(eq) == 1 and vidx is not None:
                if eq[0] in out:
                    res.ob(rule, "encode-unique | discriminant %s" % eq[0], False, "two encode calls under one arm", loc)
                out[eq[0]] = (c, vidx)
            else:
                res.ob(rule, "encode-arm | %s" % c, False,
                       "encode call not under exactly one variant arm, or payload is not that variant's field (guards %s, payload %s)" % (
                           eq, show(pay, fa.names) if pay is not None else "?"), loc)
    return {"table": out, "fa": fa, "fn": f}


def _is_msg_arg(t):
    # discr(*message) with message = arg 2 of build_message
    x = t
    if x.op == "memval":
        x = x.args[0]
    return x.op == "mem" and x.args[0].op == "arg" and x.args[0].args[1] == 2


def cargo_features(repo):
    import tomllib
    with open(repo + "/Cargo.toml", "rb") as f:
        d = tomllib.load(f)
    feats = d.get("features", {})
    msgs = sorted(k for k in feats if re.fullmatch(r"msg\d{4}", k))
    return feats, msgs


ROUNDTRIP_KEYS = ("number-source", "return-shape", "typed-arm", "arm-complete")


def coherence(prog, res, repo, rule="D-coh", floor=108, dec_keys=None):
    """All C14 obligations over the extracted tables.  dec_keys: restrict the decode-table obligations to these key prefixes
    (properties that only need 'number n is decoded by codec n into variant n', not the exact classification of failures)."""
    adt = adt_table(prog)
    if adt is None:
        res.missing(rule, MSG)
        return None
    import engine
    dec = decode_table(prog, engine.Filtered(res, {"T-dec"}, dec_keys) if dec_keys else res)
    num = number_table(prog, res)
    enc = encode_table(prog, res)
    if dec is None or num is None or enc is None:
        return None
    feats, msgs = cargo_features(repo)
    by_discr = {d: (name, pty, idx) for name, (d, pty, idx) in adt.items()}
    typed = {d for d, (name, _, _) in by_discr.items() if name not in SPECIAL}
    for s in SPECIAL:
        res.ob(rule, "special-variant | Message::%s exists" % s, s in adt, "")
    arms = dec["arms"]
    res.ob(rule, "arms=variants | decode arms equal the typed variants", arms == typed,
           "arms-variants=%s variants-arms=%s" % (sorted(arms - typed)[:5], sorted(typed - arms)[:5]),
           sample={"arms": len(arms), "typed_variants": len(typed)})
    num_arms = {d for d in num if d is not None}
    res.ob(rule, "number-arms=variants | number() has an arm for exactly the typed variants", num_arms == typed,
           "diff=%s" % sorted(num_arms ^ typed)[:6])
    enc_arms = set(enc["table"])
    res.ob(rule, "encode-arms=variants | build_message has an encode arm for exactly the typed variants", enc_arms == typed,
           "diff=%s" % sorted(enc_arms ^ typed)[:6])
    for n in sorted(arms):
        e = dec["table"].get(n, {})
        vname = e.get("variant")
        callee = e.get("callee")
        d, pty, idx = adt.get(vname, (None, None, None))
        ok1 = d == n
        res.ob(rule, "arm-variant | %s" % n, ok1, "arm %s builds Message::%s whose discriminant is %s" % (n, vname, d),
               sample={"n": n, "variant": vname, "discriminant": d} if n in (1001, 1077) else None)
        ok2 = num.get(n) == n
        res.ob(rule, "number-roundtrip | %s" % n, ok2, "number() of the variant built for %s is %s" % (n, num.get(n)))
        ec = enc["table"].get(n)
        ok3 = ec is not None and callee is not None and module_of(ec[0]) == module_of(callee) and ec[1] == idx
        res.ob(rule, "codec-module | %s" % n, ok3,
               "decode=%s encode=%s payload-variant-idx=%s expected=%s" % (callee, ec[0] if ec else None, ec[1] if ec else None, idx))
        ok4 = pty is not None and callee is not None and module_of(pty) == module_of(callee)
        res.ob(rule, "payload-module | %s" % n, ok4, "payload type %s vs decoder %s" % (pty, callee))
        ok5 = ("msg%d" % n) in feats
        res.ob(rule, "feature | msg%s" % n, ok5, "Cargo.toml has no feature msg%s" % n)
    active = set(prog.crate["features"])
    if "all_msgs" in active:
        am = set(feats.get("all_msgs", []))
        res.ob(rule, "all_msgs=features | all_msgs lists exactly the msgNNNN features", am == set(msgs),
               "diff=%s" % sorted(am ^ set(msgs))[:6], sample={"all_msgs": len(am), "msg_features": len(msgs)})
        res.ob(rule, "features=arms | message features equal decode arms", {int(m[3:]) for m in msgs} == arms,
               "diff=%s" % sorted({int(m[3:]) for m in msgs} ^ arms)[:6])
        res.floor(rule, "decode arms", len(arms), floor)
    return {"adt": adt, "dec": dec, "num": num, "enc": enc, "features": msgs}
