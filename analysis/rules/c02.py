"""C02: decoding is total (no panic, no hang) on any byte input."""
import panics
import engine
import dispatch

META = {
    "level": "other",
    "trusted_base": ["libmodel.py: contracts of core / tinyvec 1.13.3 / crc-any 2.5.1 functions (which can panic and when; which iterators are finite)",
                     "oracles/residue.json: reviewed relational arguments for the interior of Parser::parse and two index computations, each tied to "
                     "rule instances re-checked in the same run", "bit placement inside parse (C07's undecided part) is irrelevant to panic freedom",
                     "rustc MIR construction with -C overflow-checks=on (every arithmetic overflow is an explicit Assert terminator)", "mirfacts exporter"],
    "explanation": "Panic-site inventory over the call-graph closure of next_msg_frame / MsgFrameIter / MessageFrame::new / get_message (all resolved "
                   "callees, all 15 BitValue impls): every Assert terminator (overflow, bounds, division) and every call to a function that can panic "
                   "(push, set_len, extend_from_slice, indexing, unwrap, panic!, sort) is an obligation. Discharge rules: constants; interval abstract "
                   "interpretation refined by dominating guards, iterator-item facts and linear subsumption; capacity rules (len guard / trip-count "
                   "product / zip with set_len); dead-edge rule for unreachable!() (closed error sets); forwarding wrappers checked at their call sites; "
                   "unknown external callees fail closed. put/parse interiors are analysed under preconditions that are themselves obligations "
                   "(R-width at all call sites, construction sites, cursor invariant). Loops: every cycle is driven by a finite iterator on a loop-local "
                   "iterator whose None arm exits; the call graph is acyclic. Every decode error maps to Message::Corrupt (E-map).",
    "assumptions": ["the optimised profile executes the same MIR-level operations minus the overflow asserts (its panic sites are a subset)",
                    "F-fin: every float field decodes as cast(p)*res+bias with finite constants and a magnitude far below the type's maximum (field models shared with C08)"],
}


def run(ctx, res):
    prog = ctx.prog("K0")
    inv = panics.Inventory(prog, res, "DEC", panics.load_residue("DEC"))
    cl = inv.run(panics.DEC_ROOTS, assume_for=panics.io_assumptions)
    import bitio, framing
    bitio.rule_r_width(prog, res, which=("parse",))
    bitio.rule_p_pre(prog, res)
    bitio.rule_guard_cursor(prog, res, bitio.PARSE, 2)
    # framing rules are imported only as far as the residue entries rely on them (and S-closed / A-err for the dead
    # unreachable!() arm); clauses that belong to C03/C05 alone do not alarm here
    import engine
    fr = engine.Filtered(res, {"A-shape", "A-ext", "A-out", "A-sem", "S-closed", "S-ok", "S-inc", "S-end", "S-shape", "I-iter", "N-pres", "A-len"})
    m = framing.rules_new(prog, fr)
    if m.ok and len(m.oks) == 1:
        framing.rule_n_pres(prog, fr, m)
    framing.rules_scan(prog, fr, m)
    framing.rules_iter(prog, fr)
    panics.rule_acyclic(prog, res, cl, "DEC")
    panics.rule_no_interior_mutability(prog, res)
    dec = dispatch.decode_table(prog, engine.Filtered(res, {"E-map"}, ("return-shape",)), rule="E-map")
    import fieldmodel, textrules
    fieldmodel.check_fields(prog, res, prop="C02")
    textrules.rule_utf8_writers(prog, res)
    textrules.rule_capacity(prog, engine.Filtered(res, {"X-cap", "X-utf8"}))
    panics.check_residue_support(inv, res)
    if ctx.tier == "thorough":
        import crosscfg
        crosscfg.rule_same_as_default_build(ctx, res, cl, "C02 closure")
        crosscfg.rule_optimised_subset(ctx, res, cl, "C02 closure")
    res.extra["closure_functions"] = len(cl)
    res.extra["inventory"] = inv.stats
