"""Thorough-tier cross-configuration checks: the analysed build is the tested build (K1) and the optimised profile
has no panic site that the overflow-checked profile lacks (K5)."""
import matrix
from facts import callee_of
import libmodel


def rule_same_as_default_build(ctx, res, closure, label):
    """K1: every analysed function has the same resolved body in the default feature set (which the test suite builds)."""
    k0 = ctx.prog("K0")
    k1 = ctx.prog("K1")
    diff = []
    missing = []
    n = 0
    for p in sorted(closure):
        f0 = k0.fns.get(p)
        f1 = k1.fns.get(p)
        if f0 is None:
            continue
        if f1 is None:
            missing.append(p)
            continue
        n += 1
        if matrix.fn_hash(f0) != matrix.fn_hash(f1):
            diff.append(p)
    res.ob("K1-same", "%s | every analysed function is the same resolved code in the default (tested) feature set" % label,
           not diff and not missing, "differing: %s missing: %s" % (diff[:3], missing[:3]), sample={"functions_compared": n})


def _panic_signature(f):
    sig = []
    for b in sorted(f.reachable()):
        t = f.term(b)
        if t["k"] == "assert" and not t["kind"].startswith("Overflow"):
            sig.append(("assert", t["kind"]))
        elif t["k"] == "call":
            c = callee_of(t)
            if c in libmodel.PANICS:
                sig.append(("call", c))
    return sorted(sig)


def rule_optimised_subset(ctx, res, closure, label):
    """K5: without overflow checks the remaining panic sites (bounds, division, panicking calls) are exactly K0's;
    the overflow asserts K0 additionally has are all discharged, so values agree in both profiles."""
    k0 = ctx.prog("K0")
    k5 = ctx.prog("K5")
    bad = []
    n = 0
    for p in sorted(closure):
        f0, f5 = k0.fns.get(p), k5.fns.get(p)
        if f0 is None or f5 is None:
            if f5 is None and f0 is not None:
                bad.append(p + " (missing without overflow checks)")
            continue
        n += 1
        if _panic_signature(f0) != _panic_signature(f5):
            bad.append(p)
    res.ob("K5-subset", "%s | the build without overflow checks has no panic site beyond those inventoried" % label, not bad,
           "functions whose non-overflow panic sites differ: %s" % bad[:4], sample={"functions_compared": n})
