"""C07 (partial): bit-field packing - the clauses whose truth is in the shape of the code."""
import engine
import bitio

META = {
    "level": "other",
    "trusted_base": ["rustc MIR construction", "mirfacts exporter"],
    "explanation": "Decided: (B-guard) put and parse test 8*len(data) < offset+len (strict), the failing arm returns Err(BufferOverflow) and "
                   "contains no store and no &mut call, every write is dominated by the passing arm; (B-cursor) the only cursor update is "
                   "offset = offset + len, once, before Ok; (B-merge) the byte put stores is (old & !mask) | (mask & value) for every bit "
                   "(truth table of the block's bitwise expression), parse never writes the buffer; (R-width) at every put/parse call site of "
                   "the crate the width lies in [0|1, BITS(carrier)]; (R-kind) the 15 BitValue impls agree per kind up to the carrier width. "
                   "NOT decided: that the per-byte mask/shift loop places value bit k at buffer bit offset+w-1-k for every (offset, w, value) "
                   "and the two's-complement / sign-magnitude value mapping - that is a bit-precise statement over a data-dependent loop and "
                   "needs a solver or exhaustive execution, outside static analysis.",
    "assumptions": ["bit placement inside put/parse (mask and shift amounts) is assumed, not decided"],
}


def run(ctx, res):
    prog = ctx.prog("K0")
    bitio.rule_guard_cursor(prog, res, bitio.PUT, 3)
    bitio.rule_guard_cursor(prog, res, bitio.PARSE, 2)
    bitio.rule_merge(prog, res)
    bitio.rule_bitsem(prog, res)
    bitio.rule_signsem(prog, res)
    bitio.rule_r_width(prog, res)
    bitio.rule_r_kind(prog, res)
    # the reviewed lower bound of the MSM cell-mask width relies on the MSM guards
    import msm, panics
    msm.rule_guards(prog, engine.Filtered(res, {"M-guards"}))
    inv = panics.Inventory(prog, res, "WIDTH", {"__patterns__": []})
    panics.check_residue_support(inv, res)
