"""C07: bit-field packing - bit placement, neighbour preservation, overflow error and value mapping, by partitioned abstract interpretation."""
import engine
import bitio

META = {
    "level": "other",
    "trusted_base": ["rustc MIR construction", "mirfacts exporter", "bitsem.py / signsem.py: the abstract interpreter (affine cursor domain, constant propagation, "
                     "Boolean-function domain per bit, models of slice iterators and of the carrier's shift / or operators)",
                     "the arithmetic step -(-v) = v, |v| < 2^(w-1) behind the sign-magnitude round trip (stated, not derived)"],
    "explanation": "Decided by partitioned abstract interpretation of the MIR (nothing is executed; offset div 8, the value and the buffer stay symbolic): "
                   "(B-sem) for every (offset mod 8) x (width 1..=W) x (carrier width W in 8,16,32,64,128) - 1984 partitions each for put and parse - "
                   "put stores exactly the low w bits of sign_fix_rev(value), most significant first, at bits offset..offset+w, every other buffer bit keeps "
                   "its value, the cursor advances by w, and Err(BufferOverflow) is returned exactly when 8*len < offset+w with nothing written; parse returns "
                   "sign_fix(those w bits, zero-extended) without writing; every Assert terminator, carrier shift and buffer access on the way is decided. "
                   "(S-sem) sign_fix / sign_fix_rev / u8_cast / val_cast of all 15 carriers, every width 1..=BITS (1488 partitions): unsigned = identity, "
                   "two's complement = sign extension from bit w-1, sign-magnitude = sign bit w-1 plus magnitude |v| (negation is an uninterpreted vector). "
                   "Template rules kept as cross-checks: (B-guard) strict bounds test and clean error arm, (B-cursor) single cursor update, (B-merge) "
                   "masked merge, (R-width) 1 <= width <= BITS(carrier) at every put/parse call site of the crate, (R-kind) sibling agreement of the impls.",
    "assumptions": ["byte index of the cursor below 2^58 (cursor invariant offset <= 8*len(data), P-pre)", "sign-magnitude round trip uses -(-v) = v for |v| < 2^(w-1)"],
}


def run(ctx, res):
    prog = ctx.prog("K0")
    bitio.rule_guard_cursor(prog, res, bitio.PUT, 3)
    bitio.rule_guard_cursor(prog, res, bitio.PARSE, 2)
    bitio.rule_merge(prog, res)
    bitio.rule_bitsem(prog, res)
    bitio.rule_signsem(prog, res)
    bitio.rule_r_width(prog, res)
    bitio.rule_r_kind(prog, res)
    # "a read past the end reports BufferOverflow and changes neither buffer nor cursor" is decided for parse / put / consume_bits; it holds for the
    # transport only if nothing else moves a cursor or reads the buffer behind the parser's back (S137: a new Parser::take_bytes with a mis-scaled guard)
    bitio.rule_p_pre(prog, engine.Filtered(res, {"P-pre"}, key_contains={"P-pre": ("cursor stores",)}))
    # the reviewed lower bound of the MSM cell-mask width relies on the MSM guards
    import msm, panics
    msm.rule_guards(prog, engine.Filtered(res, {"M-guards"}))
    inv = panics.Inventory(prog, res, "WIDTH", {"__patterns__": []})
    panics.check_residue_support(inv, res)
