"""D-rej: inventory of the places where a decoder can reject a frame.  A frame produced by the encoder must never be
rejected (C01), so every direct `Err(..)` in the decode closure must be one of the enumerated, individually justified
rejections; a new one (an extra plausibility test) alarms until it is reviewed."""
import re
from collections import Counter
from terms import FA
import panics

EXPECTED = [
    (re.compile(r"df::parser::Parser::parse"), {"BufferOverflow": 1}, "read past the payload (B-guard)"),
    (re.compile(r"df::dfs::df_desc_str_w_len(_u8)?::decode"), {"CapacityExceeded": 1}, "count above the string capacity (K-guard)"),
    (re.compile(r"df::dfs::df_msg10(59|65)_biases::decode"), {"CapacityExceeded": 1}, "more entries than the list holds (P-push)"),
    (re.compile(r"df::dfs::df_msg1029_utf8_str::decode"), {"BufferOverflow": 1, "InvalidUtf8String": 1}, "short body / invalid UTF-8 (X-utf8)"),
    (re.compile(r"msg::msg1\d{3}::msg1\d{3}_data::decode"), {"InvalidSatelliteSignalCount": 2}, "cell count 0 or > 64 (M-order)"),
    (re.compile(r"msg::msg1\d{3}::\w+_vec::decode"), {"CapacityExceeded": 1}, "count above the list capacity (K-guard)"),
    (re.compile(r"msg::msg1\d{3}::msg1\d{3}_sig::decode"), {"InvalidSignalId": 1}, "mask position without a signal (Y-tab)"),
]


def rule_reject_inventory(prog, res):
    cl = panics.closure(prog, panics.DEC_ROOTS)
    n = 0
    for p in sorted(cl):
        if not (p.startswith("msg::") or p.startswith("df::")) or p == "msg::message::Message::from_message_frame":
            continue
        f = prog.fns[p]
        got = Counter()
        fa = None
        for b in sorted(f.reachable()):
            for i, s in enumerate(f.blocks[b]["stmts"]):
                if s["k"] == "assign" and s["place"]["local"] == 0 and not s["place"]["proj"] and s["rv"]["k"] == "aggregate" and s["rv"].get("vname") == "Err":
                    if fa is None:
                        fa = FA(f, prog)
                    v = fa.rv_term(s["rv"], (b, i))
                    var = v.args[3][0].args[2] if v.args[3] and v.args[3][0].op == "agg" else "?"
                    got[var] += 1
        want = {}
        why = "no direct rejection expected in this function"
        for rx, w, reason in EXPECTED:
            if rx.fullmatch(p):
                want, why = w, reason
                break
        if got or want:
            n += 1
            res.ob("D-rej", "%s | direct rejections are exactly the enumerated ones" % p, dict(got) == want,
                   "found %s, expected %s (%s)" % (dict(got), want, why), f.loc,
                   sample={"function": p, "rejections": dict(got)} if n <= 2 else None)
    if "all_msgs" in set(prog.crate["features"]):
        res.floor("D-rej", "decoder functions with a rejection", n, 136)
