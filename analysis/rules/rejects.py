"""D-rej: inventory of the places where a decoder can reject a frame.  A frame produced by the encoder must never be
rejected (C01), so every direct `Err(..)` in the decode closure must be one of the enumerated, individually justified
rejections; a new one (an extra plausibility test) alarms until it is reviewed."""
import re
from collections import Counter
from terms import FA, same_agg_through_phi
import panics

EXPECTED = [
    (re.compile(r"df::parser::Parser::parse"), {"BufferOverflow": 1}, "read past the payload (B-guard)"),
    (re.compile(r"df::dfs::df_desc_str_w_len(_u8)?::decode"), {"CapacityExceeded": 1}, "count above the string capacity (K-guard)"),
    (re.compile(r"df::dfs::df_msg10(59|65)_biases::decode"), {"CapacityExceeded": 1}, "more entries than the list holds (P-push)"),
    (re.compile(r"df::dfs::df_msg1029_utf8_str::decode"), {"BufferOverflow": 1, "InvalidUtf8String": 1}, "short body / invalid UTF-8 (X-utf8)"),
    (re.compile(r"msg::msg1\d{3}::msg1\d{3}_data::decode"), {"InvalidSatelliteSignalCount": 2}, "cell count 0 or > 64 (M-order)"),
    (re.compile(r"msg::msg1\d{3}::\w+_vec::decode"), {"CapacityExceeded": 1}, "count above the list capacity (K-guard)"),
    (re.compile(r"msg::msg1\d{3}::msg1\d{3}_sig::decode"), {"InvalidSignalId": 1}, "mask position without a signal (Y-tab)"),
]


def _within(got, want):
    """same variants; per variant at least one and at most the enumerated number of sites (merging two sites that return the
    same error is a refactor, an additional site is a new condition)"""
    return set(got) == set(want) and all(1 <= got[v] <= want[v] for v in want)


def rule_reject_inventory(prog, res):
    cl = panics.closure(prog, panics.DEC_ROOTS)
    n = 0
    for p in sorted(cl):
        if not (p.startswith("msg::") or p.startswith("df::")) or p == "msg::message::Message::from_message_frame":
            continue
        f = prog.fns[p]
        got = Counter()
        fa = None
        for b in sorted(f.reachable()):
            for i, s in enumerate(f.blocks[b]["stmts"]):
                if s["k"] == "assign" and not s["place"]["proj"] and f.locals[s["place"]["local"]] == f.locals[0] \
                        and s["rv"]["k"] == "aggregate" and s["rv"].get("vname") == "Err":
                    if fa is None:
                        fa = FA(f, prog)
                    v = fa.rv_term(s["rv"], (b, i))
                    e_ = same_agg_through_phi(fa, v.args[3][0]) if v.args[3] else None
                    if not (e_ is not None and e_.op == "agg"):
                        continue        # a propagated error (the payload of another call's Err), not a refusal decided here
                    var = e_.args[2]
                    got[var] += 1
        want = {}
        why = "no direct rejection expected in this function"
        for rx, w, reason in EXPECTED:
            if rx.fullmatch(p):
                want, why = w, reason
                break
        if got or want:
            n += 1
            res.ob("D-rej", "%s | direct rejections are exactly the enumerated ones" % p, _within(got, want),
                   "found %s, expected %s (%s)" % (dict(got), want, why), f.loc,
                   sample={"function": p, "rejections": dict(got)} if n <= 2 else None)
    if "all_msgs" in set(prog.crate["features"]):
        res.floor("D-rej", "decoder functions with a rejection", n, 136)


ENC_EXPECTED = [
    (re.compile(r"df::assembler::Assembler::put"), {"BufferOverflow": 1}, "write past the window (B-guard)"),
    (re.compile(r"msg::message::MessageBuilder::build_message"), {"EncodingNotSupported": 1}, "message without a wire form (W-num)"),
    (re.compile(r"msg::msg1\d{3}::msg1\d{3}_data::encode"),
     {"InvalidSatelliteId": 2, "DuplicateSatellite": 1, "InvalidSignalId": 1, "SatelliteMismatch": 1, "DuplicateSatelliteSignal": 1, "InvalidSatelliteSignalCount": 1},
     "the six documented MSM rejections (M-guards)"),
    (re.compile(r"df::dfs::df_msg1059_biases::encode"), {"OutOfRange": 3}, "satellite id > 63, more than 63 satellites, more than 31 entries per satellite"),
    (re.compile(r"df::dfs::df_msg1065_biases::encode"), {"OutOfRange": 2}, "satellite id > 31, more than 31 entries per satellite"),
    (re.compile(r"df::dfs::df_msg1230_biases::encode"), {"InvalidSignalId": 1}, "signal other than 1C/1P/2C/2P"),
    (re.compile(r"df::dfs::df_msg1029_utf8_str::encode"), {"BufferOverflow": 1}, "more than 127 characters / 255 bytes (X-lim)"),
    (re.compile(r"df::dfs::df\w+::encode"), {"OutOfRange": 1}, "value below the field's bias (O-bias)"),
]


def rule_encode_reject_inventory(prog, res, only=None):
    """E-rej: every direct refusal in the encode closure is one of the enumerated ones (an extra refusal would reject
    a valid message: C10's first sentence, C15's 'every admissible length encodes', C16's 'or report an error' only for
    unrepresentable input)."""
    cl = panics.closure(prog, panics.ENC_ROOTS)
    n = 0
    for p in sorted(cl):
        if not (p.startswith("msg::") or p.startswith("df::")):
            continue
        if only is not None and not only.search(p):
            continue
        f = prog.fns[p]
        got = Counter()
        fa = None
        for b in sorted(f.reachable()):
            for i, s in enumerate(f.blocks[b]["stmts"]):
                if s["k"] == "assign" and not s["place"]["proj"] and f.locals[s["place"]["local"]] == f.locals[0] \
                        and s["rv"]["k"] == "aggregate" and s["rv"].get("vname") == "Err":
                    if fa is None:
                        fa = FA(f, prog)
                    v = fa.rv_term(s["rv"], (b, i))
                    e_ = same_agg_through_phi(fa, v.args[3][0]) if v.args[3] else None
                    if not (e_ is not None and e_.op == "agg"):
                        continue        # a propagated error (the payload of another call's Err), not a refusal decided here
                    var = e_.args[2]
                    got[var] += 1
        want = {}
        why = "no direct refusal expected in this function"
        for rx, w, reason in ENC_EXPECTED:
            if rx.fullmatch(p):
                want, why = w, reason
                break
        if not got and want == {"OutOfRange": 1} and p.startswith("df::dfs::df"):
            continue      # a field without a bias has no refusal at all (the generic df entry is an upper bound)
        if got or want:
            n += 1
            res.ob("E-rej", "%s | direct refusals are exactly the enumerated ones" % p, _within(got, want),
                   "found %s, expected %s (%s)" % (dict(got), want, why), f.loc,
                   sample={"function": p, "refusals": dict(got)} if n <= 2 else None)
    return n
