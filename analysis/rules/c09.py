"""C09: encoding is total and every emitted frame is well formed."""
import engine
import panics
import dispatch
import builder
import bitio
import crcq

META = {
    "level": "other",
    "trusted_base": ["libmodel.py contracts (core / tinyvec 1.13.3 / crc-any 2.5.1)", "oracles/residue.json (reviewed relational arguments: interior of "
                     "Assembler::put, MSM cell index arithmetic, SSR satellite counter, ArrayString UTF-8 invariant), each tied to rule instances "
                     "re-checked in the same run", "float-to-int `as` casts saturate (Rust semantics), so NaN/inf/huge reals cannot panic",
                     "rustc MIR construction with overflow checks on", "mirfacts exporter"],
    "explanation": "Panic-site inventory over the call-graph closure of MessageBuilder::new / build_message (all 108 encoders, all fragments, all 15 "
                   "BitValue impls, sort comparators): every Assert terminator and every call that can panic is an obligation; user-supplied fields "
                   "range over their whole type, vector lengths over [0, capacity]. Frame shape: first write is put::<U16>(number(), 12) at bit 0 of "
                   "the window data[3..1026]; data_len = ceil(offset/8) in [2,1023]; byte1/byte2 have the bit provenance of data_len>>8 / data_len&255 "
                   "(reserved bits zero); one crc24lte_a object digests data[..data_len+3] after the length bytes are stored; bytes data_len+3..5 are CRC "
                   "bits 23..16/15..8/7..0; the result is data[..data_len+6]; messages without a number are refused before any write; the trailing "
                   "unreachable!() arm is dead because number() is Some exactly for the typed variants. CRC-24Q identity of crc24lte_a is the "
                   "dependency table check (no second implementation is executed).",
    "assumptions": ["byte 0 is 0xD3 by C12's T-new/T-pre (included here)"],
}


def run(ctx, res):
    prog = ctx.prog("K0")
    inv = panics.Inventory(prog, res, "ENC", panics.load_residue("ENC"))
    cl = inv.run(panics.ENC_ROOTS, assume_for=panics.io_assumptions)
    res.extra["closure_functions"] = len(cl)
    res.extra["inventory"] = inv.stats
    panics.rule_acyclic(prog, res, cl, "ENC")
    panics.rule_no_interior_mutability(prog, res)
    bitio.rule_r_width(prog, res, which=("put",))
    bitio.rule_p_pre(prog, res)
    bitio.rule_guard_cursor(prog, res, bitio.PUT, 3)
    builder.rules_new_clear(prog, res)
    m = builder.BuildModel(prog, res)
    builder.rules_frame_shape(prog, res, m)
    dispatch.coherence(prog, res, ctx.repo, dec_keys=dispatch.ROUNDTRIP_KEYS)
    crcq.rule_a_crc(ctx, res)
    import msm
    msm.rule_guards(prog, engine.Filtered(res, {"M-guards"}))
    import textrules
    textrules.rule_utf8_writers(prog, res)
    textrules.rule_capacity(prog, engine.Filtered(res, {"X-cap", "X-utf8"}))
    panics.check_residue_support(inv, res)
    if ctx.tier == "thorough":
        import crosscfg
        crosscfg.rule_same_as_default_build(ctx, res, cl, "C09 closure")
        crosscfg.rule_optimised_subset(ctx, res, cl, "C09 closure")
