"""C11: quantisation picks the nearest representable value."""
import fieldmodel

META = {
    "level": "proof",
    "exhaustive": True,
    "trusted_base": ["IEEE-754 round-to-nearest semantics of Rust f32/f64 arithmetic, saturating float->int `as`", "rustc MIR construction", "mirfacts exporter"],
    "explanation": "Same extracted models as C08 (198 float fields + 3 hand-written quantisers). Obligations: (O-round) the encoder adds +1/2 when the "
                   "quotient is >= 0 and -1/2 otherwise, selected on the same quotient term, then truncates - this is round-half-away-from-zero; the "
                   "quotient is (x - bias)/res with the decoder's constants (O-agree); (O-err2) for every real x in the field's range the computed quotient "
                   "differs from (x-b)/c by less than 1/2 - u(|p|+1) in the worst case, so the result is one of the two neighbouring grid points and the "
                   "decoded value differs from x by at most half a step plus the stated slack; monotonicity follows from monotonicity of each step. "
                   "The carrier step (put keeps the low w bits, parse returns them sign-extended / sign-magnitude per carrier) is the abstract "
                   "interpretation of C07 (B-sem, S-sem), imported so that a grid point cannot wrap in transport. The rounding template is required for every float field (a truncating cast is exact on the grid but off by up to a step for arbitrary reals).",
    "assumptions": ["behaviour outside the representable range is only required not to panic (C09)"],
}


def run(ctx, res):
    prog = ctx.prog("K0")
    fieldmodel.check_fields(prog, res, prop="C11")
    fieldmodel.check_handwritten(prog, res, prop="C11")
    # "in-range inputs never wrap around": the selected grid point has to survive the integer carrier (put's low-w-bits reading, parse's
    # sign extension / sign-magnitude reading) - the same decision C07/C08 use, restricted to the value clauses
    import bitio
    import engine
    view = engine.Filtered(res, {"B-sem", "S-sem", "B-guard", "S-fix"})
    bitio.rule_bitsem(prog, view)
    bitio.rule_signsem(prog, view)
