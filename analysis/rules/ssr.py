"""SSR code-bias (1059, 1065) and GLONASS code-phase bias (1230) list rules (C16)."""
from terms import err_variant, FA, show, mk, ty_of, is_const, const_val, T, subterms
from facts import callee_of
from intervals import Intervals
from algebra import fact_of_guard, canon_le, lin
from paths import enum_paths
import libmodel
import intervals
import panics
import sigtab

PUT = "df::assembler::Assembler::put"
PARSE = "df::parser::Parser::parse"
MODS = {"1059": ("df::dfs::df_msg1059_biases", 6, 63), "1065": ("df::dfs::df_msg1065_biases", 5, 31)}


def rule_count_fields(prog, res):
    """K-adeq (intervals): every count / id written by the hand-written encoders fits its field."""
    for num, (mod, idbits, maxid) in MODS.items():
        f = prog.fn(mod + "::encode")
        if f is None:
            if ("msg" + num) in set(prog.crate["features"]):
                res.missing("K-adeq", mod + "::encode")
            continue
        res.fn(f)
        fa = FA(f, prog)
        iv = Intervals(fa, prog)
        names = fa.names
        puts = [(b, fa.call_args(b), t) for b, t in f.calls() if callee_of(t) == PUT]
        res.ob("K-adeq", "%s | five writes: satellite count, satellite id, entry count, signal id, bias" % num, len(puts) == 5, "found %d" % len(puts), f.loc)
        for b, a, t in puts:
            g = libmodel.carrier_of(t.get("rargs") or t.get("cargs"))
            w = const_val(a[2]) if is_const(a[2]) else None
            v = a[1]
            if g and g[1] != "u":
                continue     # the bias itself (I16.14): quantiser, saturating cast
            src = v
            while src.op == "cast":
                src = src.args[1]
            si = iv.interval(src, b)
            # a guard may be written on the converted value (`let n = mask.count_ones() as u8; if n > 63 { return Err }`): where every cast on
            # the way is value-preserving for the source's interval, the written value IS the source and its own (guard-refined) interval counts
            if si is not None and v is not src:
                x_, lossless = v, True
                while x_.op == "cast":
                    rng_ = intervals.trange(x_) if x_.args[0] == "IntToInt" else None
                    if rng_ is None or not (rng_[0] <= si[0] and si[1] <= rng_[1]):
                        lossless = False
                        break
                    x_ = x_.args[1]
                sv = iv.interval(v, b) if lossless else None
                if sv is not None:
                    si = (max(si[0], sv[0]), min(si[1], sv[1]))
            ok = w is not None and si is not None and 0 <= si[0] and si[1] <= (1 << w) - 1
            res.ob("K-adeq", "%s | %s written in %s bits cannot wrap" % (num, show(v, names), w), ok, "value in %s, field max %s" % (si, (1 << w) - 1 if w else None),
                   {"file": f.loc["file"], "line": t["line"]}, sample={"value": show(v, names), "interval": si, "bits": w})
        # Q-mask: accepted satellite ids are exactly 0..=maxid; out of range -> OutOfRange
        shl = []
        for b in sorted(f.reachable()):
            for i, s in enumerate(f.blocks[b]["stmts"]):
                if s["k"] == "assign" and s["rv"]["k"] == "binop" and s["rv"]["op"] == "Shl":
                    v = fa.rv_term(s["rv"], (b, i))
                    if is_const(v.args[1]) and const_val(v.args[1]) == 1:
                        x = v.args[2]
                        if any(y.op == "call" and "slice::Iter" in y.args[0] for y in subterms(x)):
                            shl.append((b, x, s["line"]))
        okm = bool(shl)
        ivx = Intervals(fa, prog, use_asserts=False)
        for b, x, line in shl:
            ii = ivx.interval(x, b)
            if ii != (0, maxid):
                okm = False
        res.ob("Q-mask", "%s | satellites accepted into the mask are exactly 0..=%d (the range of the %d-bit id field)" % (num, maxid, idbits), okm,
               "%s" % [(show(x, names), ivx.interval(x, b)) for b, x, l in shl], f.loc, sample={"sites": len(shl)})
        errs = set()
        for b in sorted(f.reachable()):
            for i, s in enumerate(f.blocks[b]["stmts"]):
                if s["k"] == "assign" and s["place"]["local"] == 0 and s["rv"]["k"] == "aggregate" and s["rv"].get("vname") == "Err":
                    v = fa.rv_term(s["rv"], (b, i))
                    _ev = err_variant(v, fa)
                    if _ev is not None:
                        errs.add(_ev)
        res.ob("Q-mask", "%s | entries that cannot be represented are refused with OutOfRange" % num, errs == {"OutOfRange"}, str(sorted(errs)), f.loc)
        # second loop: RangeInclusive(0, maxid) ascending, group written iff its bit is set
        okl = False
        sterm = None
        for b, a, t in puts:
            v = a[1]
            if v.op == "field" and v.args[0].op == "downcast" and v.args[0].args[0].op == "call" and v.args[0].args[0].args[0] == libmodel.RANGE_INCL_NEXT:
                src = libmodel.iterator_source(v.args[0].args[0], fa)
                if src is not None and src[0].op == "call":
                    y = src[0]
                    if y.args[0] == libmodel.INTO_ITER:
                        y = y.args[1][0]
                    if y.op == "call" and y.args[0] == "core::ops::RangeInclusive::<Idx>::new" and is_const(y.args[1][0]) and const_val(y.args[1][0]) == 0 \
                            and is_const(y.args[1][1]) and const_val(y.args[1][1]) == maxid:
                        sterm = v
                        # guarded by (mask & (1 << s)) != 0
                        for gd in fa.guards(b):
                            fc = fact_of_guard(gd)
                            if fc[0] == "Ne" and is_const(fc[2]) and const_val(fc[2]) == 0 and fc[1].op == "bin" and fc[1].args[0] == "BitAnd":
                                for m_, s_ in ((fc[1].args[1], fc[1].args[2]), (fc[1].args[2], fc[1].args[1])):
                                    if s_.op == "bin" and s_.args[0] == "Shl" and s_.args[2] is v and m_.op == "phi":
                                        okl = True
        if not okl:
            # the same loop over a half-open range: 0..maxid+1, or the occupied span of the mask  trailing_zeros(M) .. BITS - leading_zeros(M)
            # (every set bit i of M satisfies tz(M) <= i < BITS - lz(M), so with the inner bit test the same ids are visited, ascending)
            for b, a, t in puts:
                v = a[1]
                if not (v.op == "field" and v.args[0].op == "downcast" and v.args[0].args[0].op == "call" and v.args[0].args[0].args[0] == libmodel.RANGE_NEXT):
                    continue
                src = libmodel.iterator_source(v.args[0].args[0], fa)
                if src is None:
                    continue
                y = src[0]
                if y.op == "call" and y.args[0] == libmodel.INTO_ITER:
                    y = y.args[1][0]
                if not (y.op == "agg" and y.args[0] == "core::ops::Range"):
                    continue
                lo, hi = y.args[3]
                masks = []
                for gd in fa.guards(b):
                    fc = fact_of_guard(gd)
                    if fc[0] == "Ne" and is_const(fc[2]) and const_val(fc[2]) == 0 and fc[1].op == "bin" and fc[1].args[0] == "BitAnd":
                        for m_, s_ in ((fc[1].args[1], fc[1].args[2]), (fc[1].args[2], fc[1].args[1])):
                            if s_.op == "bin" and s_.args[0] == "Shl" and s_.args[2] is v and m_.op == "phi":
                                masks.append(m_)
                if len(masks) != 1:
                    continue
                M = masks[0]

                def strip_cast(z):
                    while z.op == "cast":
                        z = z.args[1]
                    return z
                lo_, hi_ = strip_cast(lo), strip_cast(hi)
                full = is_const(lo_) and const_val(lo_) == 0 and is_const(hi_) and const_val(hi_) == maxid + 1
                span = lo_.op == "call" and lo_.args[0].endswith(">::trailing_zeros") and lo_.args[1][0] is M \
                    and hi_.op == "bin" and hi_.args[0] == "Sub" and is_const(hi_.args[1]) and const_val(hi_.args[1]) == maxid + 1 \
                    and hi_.args[2].op == "call" and hi_.args[2].args[0].endswith(">::leading_zeros") and hi_.args[2].args[1][0] is M \
                    and (ty_of(M) or {}).get("bits") == maxid + 1
                if full or span:
                    sterm = v
                    okl = True
        res.ob("Q-mask", "%s | groups are written for s = 0..=%d ascending, exactly for the satellites present" % (num, maxid), okl, "", f.loc)
        # Q-cnt: the satellite count on the wire is the number of groups written = the number of bits of the satellite mask
        _count_rule(res, num, f, fa, puts, maxid)
        # Q-pred: the counted predicate equals the written predicate
        _pred_rule(prog, res, num, mod, f, fa, sterm)


def _add_update_sites(fa, t, v=None, pb=None, depth=0):
    """[(block the update arrives from, increment)] for every operand Add(t, k) of the counter phi t (through inner phis); None for another shape"""
    out = []
    if v is None:
        for qb, w in fa.phi_operands(t):
            r = _add_update_sites(fa, t, w, qb, depth + 1)
            if r is None:
                return None
            out.extend(r)
        return out
    if v is t:
        return []
    if depth > 5:
        return None
    if v.op == "bin" and v.args[0] == "Add" and (v.args[1] is t or v.args[2] is t):
        return [(pb, v.args[2] if v.args[1] is t else v.args[1])]
    if v.op == "phi":
        for qb, w in fa.phi_operands(v):
            r = _add_update_sites(fa, t, w, qb, depth + 1)
            if r is None:
                return None
            out.extend(r)
        return out
    if is_const(v) and const_val(v) == 0:
        return [("init", v)]
    return None


def _count_rule(res, num, f, fa, puts, maxid):
    import msm
    inloop = set()
    for h_, body_ in f.loops().items():
        inloop |= set(body_)
    # the count is the first write of the encoder: the put that is not inside a loop
    first = [(b, a, t) for b, a, t in puts if b not in inloop]
    ok = False
    d = ""
    if len(first) != 1:
        d = "%d writes outside the loops" % len(first)
    else:
        b, a, t = first[0]
        v = a[1]
        while v.op == "cast" and v.args[0] == "IntToInt":
            v = v.args[1]
        # the mask: the accumulator the group loop tests
        masks = set()
        for b2, a2, t2 in puts:
            for gd in fa.guards(b2):
                fc = fact_of_guard(gd)
                if fc[0] == "Ne" and is_const(fc[2]) and const_val(fc[2]) == 0 and fc[1].op == "bin" and fc[1].args[0] == "BitAnd":
                    for m_, s_ in ((fc[1].args[1], fc[1].args[2]), (fc[1].args[2], fc[1].args[1])):
                        if s_.op == "bin" and s_.args[0] == "Shl" and m_.op == "phi":
                            masks.add(m_)
        if len(masks) != 1:
            d = "the group loop does not test one mask accumulator (%d found)" % len(masks)
        else:
            M = next(iter(masks))
            if v.op == "call" and v.args[0].endswith(">::count_ones") and v.args[1] and v.args[1][0] is M:
                ok = True
                d = "count = popcount of the mask the group loop walks"
            elif v.op == "phi":
                adds = _add_update_sites(fa, v)
                ors = msm.or_update_sites(fa, M)
                if adds is None:
                    d = "the count is not a counter (0, then + 1)"
                else:
                    inc = [(pb, k) for pb, k in adds if pb != "init"]
                    flags = [intervals.fresh_bit_flag(k) for pb, k in inc]
                    if inc and all(fl is not None for fl in flags):
                        # counter += u8::from(mask & bit == 0); mask |= bit;  - the flag is 1 exactly when the bit is new, the OR is unconditional
                        okf = all(fl[0] is M for fl in flags) and sorted(pb for pb, k in inc) == sorted(pb for pb, k in ors) \
                            and all(any(pb2 == pb and dlt is fl[1] for pb2, dlt in ors) for (pb, k), fl in zip(inc, flags)) and any(pb == "init" for pb, k in adds)
                        res.ob("Q-cnt", "%s | the satellite count written = number of satellites in the mask (popcount, or + 1 exactly where a new mask bit is set)" % num,
                               okf, "counter += (bit & mask == 0) as integer, followed by mask |= bit at the same site(s): %s" % okf, f.loc)
                        return
                    okk = all(is_const(k) and const_val(k) == 1 for pb, k in inc) and any(pb == "init" for pb, k in adds)
                    same = sorted(pb for pb, k in inc) == sorted(pb for pb, k in ors) and len(inc) >= 1
                    fresh = True
                    for pb, dlt in ors:
                        hit = False
                        for gd in fa.guards(pb):
                            fc = fact_of_guard(gd)
                            if fc[0] in ("Eq", "Le") and is_const(fc[2]) and const_val(fc[2]) == 0 and fc[1].op == "bin" and fc[1].args[0] == "BitAnd" \
                                    and ((fc[1].args[1] is dlt and fc[1].args[2] is M) or (fc[1].args[2] is dlt and fc[1].args[1] is M)):
                                hit = True
                        fresh = fresh and hit
                    ok = okk and same and fresh
                    d = "counter + 1 at %s, mask bit added at %s, each under (bit & mask) == 0: %s" % (sorted(str(pb) for pb, k in inc), sorted(str(pb) for pb, k in ors), fresh)
            else:
                d = "count value %s is neither popcount(mask) nor a counter" % show(v, fa.names)[:120]
    res.ob("Q-cnt", "%s | the satellite count written = number of satellites in the mask (popcount, or + 1 exactly where a new mask bit is set)" % num, ok, d, f.loc)


def _closure_atoms(prog, path):
    """Conjunction computed by a filter closure |b| ... as a set of normalised atoms, or None."""
    g = prog.fn(path)
    if g is None:
        return None
    ga = FA(g, prog)
    atoms_true = None
    for blocks, facts, rv, flist in enum_paths(ga):
        # paths returning true (or a term): collect the condition under which the result can be true
        fs = []
        for gd in flist:
            fc = fact_of_guard(gd)
            fs.append(fc)
        if is_const(rv) and const_val(rv) == 0:
            continue
        cur = set()
        for fc in fs:
            a = _atom(fc, ga)
            if a is None:
                return None
            cur.add(a)
        if not (is_const(rv) and const_val(rv) == 1):
            a = _atom(("Bool", rv, True), ga)
            if a is None:
                return None
            cur.add(a)
        if atoms_true is not None:
            return None      # disjunction: not a plain conjunction
        atoms_true = cur
    return atoms_true


def _atom(fc, ga):
    def fld(t):
        # (**b).k  with b = closure arg 2
        x = t
        while x.op in ("memval",):
            x = x.args[0]
        if x.op == "pf":
            k = x.args[1]
            y = x.args[0]
            while y.op in ("mem", "memval"):
                y = y.args[0]
            if y.op == "arg" and y.args[1] == 2:
                return ("elem", k)
            if y.op == "pf" and y.args[1] == 0:
                z = y.args[0]
                while z.op in ("mem", "memval"):
                    z = z.args[0]
                if z.op == "arg" and z.args[1] == 1:
                    return ("captured", 0)
        if t.op == "memval":
            y = t.args[0]
            if y.op == "mem":
                return fld(y.args[0]) if False else None
        return None

    def side(t):
        x = t
        # captured s: *(*env).0
        y = x
        depth = 0
        while y.op in ("memval", "mem") and depth < 6:
            y = y.args[0]
            depth += 1
        if y.op == "pf" and y.args[1] == 0:
            z = y.args[0]
            while z.op in ("mem", "memval"):
                z = z.args[0]
            if z.op == "arg" and z.args[1] == 1:
                return ("captured",)
        if y.op == "pf":
            z = y.args[0]
            while z.op in ("mem", "memval"):
                z = z.args[0]
            if z.op == "arg" and z.args[1] == 2:
                return ("elem", y.args[1])
        return None
    if fc[0] == "Eq":
        a, b = side(fc[1]), side(fc[2])
        if a and b:
            return ("eq",) + tuple(sorted([a, b]))
        return None
    if fc[0] == "Bool" and fc[2] is True:
        t = fc[1]
        if t.op == "bin" and t.args[0] == "Eq":
            return _atom(("Eq", t.args[1], t.args[2]), ga)
        if t.op == "call" and t.args[0] == "core::option::Option::<T>::is_some":
            inner = t.args[1][0]
            if inner.op == "call" and inner.args[0].endswith("::to_id"):
                s_ = side(inner.args[1][0])
                if s_:
                    return ("recognised", s_)
        return None
    return None


def _pred_rule(prog, res, num, mod, f, fa, sterm):
    names = fa.names
    filters = [(b, fa.call_args(b)) for b, t in f.calls() if callee_of(t) == "core::iter::Iterator::filter"]
    counted = written = None
    for b, a in filters:
        cl = a[1]
        if cl.op != "closure":
            continue
        atoms = _closure_atoms(prog, cl.args[0])
        # which use: count() or the write loop
        is_count = any(callee_of(t) == "<core::iter::Filter<I, P> as core::iter::Iterator>::count" and fa.call_args(bb)[0].op == "call"
                       and fa.call_args(bb)[0].args[3] == b for bb, t in f.calls())
        # captured variable must be the loop's s
        cap_ok = cl.args[1] and sterm is not None and _deref_is(cl.args[1][0], sterm, fa)
        if is_count:
            counted = (atoms, cap_ok)
        else:
            written = (atoms, cap_ok)
    ok = False
    d = "counted=%s written=%s" % (counted, written)
    if counted and written and counted[0] is not None and written[0] is not None and counted[1] and written[1]:
        # written entries additionally require to_id(signal) == Some (the `if let Some(..)` in the write loop)
        w_atoms = set(written[0])
        extra = False
        for b, t in f.calls():
            if callee_of(t) == PUT:
                for gd in fa.guards(b):
                    if gd[0].op == "discr" and gd[0].args[0].op == "call" and gd[0].args[0].args[0].endswith("::to_id") and gd[1] == "eq" and gd[2] == 1:
                        x = gd[0].args[0].args[1][0]
                        # to_id(elem.signal_id) of the write loop's element
                        if any(y.op == "call" and "Filter" in y.args[0] and y.args[0].endswith("::next") for y in subterms(x)):
                            extra = True
        if extra:
            w_atoms.add(("recognised", ("elem", 1)))
        ok = set(counted[0]) == w_atoms and ("eq", ("captured",), ("elem", 0)) in w_atoms
        d = "counted %s ; written %s" % (sorted(counted[0]), sorted(w_atoms))
    res.ob("Q-pred", "%s | the per-satellite count counts exactly the entries that are written (same satellite, recognised signal)" % num, ok, d, f.loc, sample=d)


def _deref_is(t, sterm, fa):
    """closure capture &s where s holds the RangeInclusive item"""
    x = t
    while x.op == "ref":
        x = x.args[0]
    if x.op == "loc":
        L = x.args[1]
        ds = [d for d in fa.defs(L) if d[2] == "assign"]
        for d in ds:
            v = fa.defterm(L, *d)
            if v is sterm:
                return True
    return False


def rule_value_flow(prog, res):
    """Q-flow: what is written / rebuilt is exactly the entry's own satellite id, signal id (through the table) and bias."""
    for num, (mod, idbits, maxid) in MODS.items():
        fe, fd = prog.fn(mod + "::encode"), prog.fn(mod + "::decode")
        if fe is None or fd is None:
            continue
        adt = prog.adts.get("%s::Msg%sCodeBias" % (mod, num))
        if adt is None:
            res.missing("Q-flow", "%s::Msg%sCodeBias" % (mod, num))
            continue
        fields = [x["name"] for x in adt["variants"][0]["fields"]]
        i_sat, i_sig, i_bias = fields.index("satellite_id"), fields.index("signal_id"), fields.index("bias_m")
        # ---- decode
        da = FA(fd, prog)
        okd = False
        d = ""
        pushes = [(b, da.call_args(b)) for b, t in fd.calls() if (callee_of(t) or "").endswith("DataVec::<T, N>::push")]
        if len(pushes) == 1:
            v = pushes[0][1][1]
            d = show(v, da.names)[:200]
            if v.op == "agg" and len(v.args[3]) == 3:
                sat, sig, bias = v.args[3][i_sat], v.args[3][i_sig], v.args[3][i_bias]

                def parsed(t, w):
                    return t.op == "field" and t.args[1] == 0 and t.args[0].op == "downcast" and t.args[0].args[1] == 0 and t.args[0].args[0].op == "call" \
                        and t.args[0].args[0].args[0].endswith("Try>::branch") and t.args[0].args[0].args[1][0].op == "call" \
                        and t.args[0].args[0].args[1][0].args[0] == PARSE and is_const(t.args[0].args[0].args[1][0].args[1][1]) \
                        and const_val(t.args[0].args[0].args[1][0].args[1][1]) == w
                oks = parsed(sat, idbits)
                okg = sig.op == "field" and sig.args[1] == 0 and sig.args[0].op == "downcast" and sig.args[0].args[1] == 1 and sig.args[0].args[0].op == "call" \
                    and sig.args[0].args[0].args[0] == mod + "::to_sig" and parsed(sig.args[0].args[0].args[1][0], 5)
                okd = oks and okg
        res.ob("Q-flow", "%s decode | each entry = (parsed %d-bit satellite id, to_sig(parsed 5-bit id), decoded bias)" % (num, idbits), okd, d, fd.loc, sample=d)
        if len(pushes) == 1:
            import looprules
            pb_ = [b for b, t in fd.calls() if (callee_of(t) or "").endswith("DataVec::<T, N>::push")][0]

            def _unknown_signal(x, s_):
                # the only legitimate skip: to_sig(id) is None
                for g in da.edge_guard(x, s_):
                    tt = g[0]
                    if tt.op == "discr" and tt.args[0].op == "call" and tt.args[0].args[0] == mod + "::to_sig" and ((g[1] == "eq" and g[2] == 0) or (g[1] == "ne" and 1 in g[2])):
                        return True
                return False
            okc_, dc_ = looprules.action_complete(fd, da, pb_, _unknown_signal)
            res.ob("Q-flow", "%s decode | every entry read with a recognised signal id is pushed (nothing else skips an entry)" % num, okc_, dc_, fd.loc)
            r_ = pushes[0][1][0]
            while r_.op in ("ref", "mem", "memval"):
                r_ = r_.args[0]
            if r_.op == "loc":
                okm_, dm_ = looprules.only_mutated_by(fd, r_.args[1], {pb_})
                res.ob("Q-flow", "%s decode | the list is mutated only by that push (nothing is removed, reordered or overwritten afterwards)" % num, okm_, dm_, fd.loc)
        # ---- encode: signal id and bias come from the element currently written
        ea = FA(fe, prog)
        puts = [(b, ea.call_args(b), t) for b, t in fe.calls() if callee_of(t) == PUT]
        elem = None
        oksig = False
        for b, a, t in puts:
            v = a[1]
            if v.op == "field" and v.args[1] == 0 and v.args[0].op == "downcast" and v.args[0].args[1] == 1 and v.args[0].args[0].op == "call" \
                    and v.args[0].args[0].args[0] == mod + "::to_id" and is_const(a[2]) and const_val(a[2]) == 5:
                x = v.args[0].args[0].args[1][0]      # memval(*item.signal_id)
                y = x
                while y.op in ("memval",):
                    y = y.args[0]
                if y.op == "pf" and y.args[1] == i_sig:
                    z = y.args[0]
                    while z.op in ("mem", "memval"):
                        z = z.args[0]
                    if z.op == "field" and z.args[0].op == "downcast" and z.args[0].args[0].op == "call" and "Filter" in z.args[0].args[0].args[0]:
                        elem = z
                        oksig = True
        res.ob("Q-flow", "%s encode | the 5-bit signal id written is to_id(entry.signal_id) of the entry being written" % num, oksig, "", fe.loc)
        okb = False
        if elem is not None:
            for b, a, t in puts:
                g = libmodel.carrier_of(t.get("rargs") or t.get("cargs"))
                if g and g[0] == "I16":
                    for x in subterms(a[1]):
                        if x.op == "memval" and x.args[0].op == "pf" and x.args[0].args[1] == i_bias:
                            z = x.args[0].args[0]
                            while z.op in ("mem", "memval"):
                                z = z.args[0]
                            if z is elem:
                                okb = True
                    # phis: look into operands
                    st = [a[1]]
                    seen = set()
                    while st and not okb:
                        x = st.pop()
                        if not isinstance(x, T) or x in seen:
                            continue
                        seen.add(x)
                        if x.op == "phi":
                            st.extend(w for _, w in ea.phi_operands(x))
                        if x.op == "memval" and x.args[0].op == "pf" and x.args[0].args[1] == i_bias:
                            z = x.args[0].args[0]
                            while z.op in ("mem", "memval"):
                                z = z.args[0]
                            if z is elem:
                                okb = True
                        st.extend(y for y in x.args if isinstance(y, T))
        res.ob("Q-flow", "%s encode | the bias written is quantised from the same entry's bias_m" % num, okb, "", fe.loc)
        # completeness: every entry the group count counted is written - in the write loop nothing but "to_id is None" can skip an entry
        b_sig = [b for b, a, t in puts if a[1].op == "field" and a[1].args[0].op == "downcast" and a[1].args[0].args[0].op == "call"
                 and a[1].args[0].args[0].args[0] == mod + "::to_id" and is_const(a[2]) and const_val(a[2]) == 5]
        b_bias = [b for b, a, t in puts if (libmodel.carrier_of(t.get("rargs") or t.get("cargs")) or [None])[0] == "I16"]
        okall = False
        dall = "signal / bias writes not found"
        if len(b_sig) == 1 and len(b_bias) == 1:
            loops = fe.loops()
            inner = None
            for h_, body in loops.items():
                if b_sig[0] in body and (inner is None or len(body) < len(loops[inner])):
                    inner = h_
            if inner is not None:
                body = loops[inner]
                latches = [s_ for (s_, h_) in fe.back_edges() if h_ == inner]
                tid = ea.call_args(b_sig[0])[1].args[0].args[0]            # the to_id(..) call term
                X = [x for x in sorted(body) if fe.term(x)["k"] == "switch"
                     and ea.op_term(fe.term(x)["discr"], (x, len(fe.blocks[x]["stmts"]))) is mk("discr", tid)]
                if len(X) == 1:
                    x = X[0]
                    before = all(fe.dominates(x, l_) for l_ in latches)
                    some = [s_ for s_ in fe.succ(x) if any(g[0] is mk("discr", tid) and g[1] == "eq" and g[2] == 1 for g in ea.edge_guard(x, s_))]
                    after = False
                    if len(some) == 1:
                        seen, st = set(), [some[0]]
                        after = True
                        while st:
                            y = st.pop()
                            if y in seen or y == b_bias[0] or y not in body:
                                continue
                            seen.add(y)
                            if y in latches or y == inner:
                                after = False
                                break
                            st.extend(fe.succ(y))
                    okall = before and after
                    dall = "" if okall else ("an entry can be skipped %s the to_id test without being written" % ("before" if not before else "after"))
                else:
                    dall = "no single test of to_id(..) in the write loop"
        res.ob("Q-flow", "%s encode | in the write loop only an unrecognised signal skips an entry; every other entry reaches both writes" % num, okall, dall, fe.loc)


def rule_tables(prog, res):
    """Q-tab: SSR signal tables are mutually inverse and fit 5 bits."""
    for num, (mod, idbits, maxid) in MODS.items():
        if prog.fn(mod + "::to_sig") is None:
            if ("msg" + num) in set(prog.crate["features"]):
                res.missing("Q-tab", mod + "::to_sig")
            continue
        ts = sigtab.extract_to_sig(prog, res, mod + "::to_sig", "Q-tab")
        ti = sigtab.extract_to_id(prog, res, mod + "::to_id", "Q-tab")
        if ts is None or ti is None:
            continue
        inv = {v: k for k, v in ts.items()}
        res.ob("Q-tab", "%s | to_id is the inverse of to_sig" % num, inv == ti and len(inv) == len(ts), "to_sig %d entries, to_id %d" % (len(ts), len(ti)),
               sample={"entries": len(ts)})
        res.ob("Q-tab", "%s | signal ids fit the 5-bit field" % num, all(0 <= k <= 31 for k in ts), str(sorted(ts)))


def _const_table(prog, t):
    """elements of a constant array of integer tuples referenced by a term `&*opaque_const(.., promoted)`; [(v0, v1, ..), ..] or None"""
    x = t
    while x.op in ("ref", "mem", "memval"):
        x = x.args[0]
    if x.op != "opaque_const":
        return None
    name = str(x.args[-1])
    pr = prog.promoted.get(name)
    rec = pr if isinstance(pr, dict) else getattr(pr, "rec", None)
    cname = None
    if rec:
        for st in rec["blocks"][0]["stmts"]:
            if st["k"] == "assign" and st["rv"]["k"] == "use" and st["rv"]["op"].get("k") == "const" and st["rv"]["op"].get("s") in prog.constbodies:
                cname = st["rv"]["op"]["s"]
    elif name in prog.constbodies:
        cname = name
    if cname is None:
        return None
    cb = prog.constbodies[cname]
    cb = cb if isinstance(cb, dict) else cb.rec
    if len(cb["blocks"]) != 1:
        return None
    env = {}
    out = None
    for st in cb["blocks"][0]["stmts"]:
        if st["k"] != "assign" or st["place"]["proj"] or st["rv"]["k"] != "aggregate":
            continue
        rv = st["rv"]
        if rv.get("agg") == "tuple" and all(o["k"] == "const" and "val" in o for o in rv["ops"]):
            env[st["place"]["local"]] = tuple(o["val"] for o in rv["ops"])
        elif rv.get("agg") == "array" and st["place"]["local"] == 0:
            els = []
            for o in rv["ops"]:
                if o["k"] in ("move", "copy") and not o["place"]["proj"] and o["place"]["local"] in env:
                    els.append(env[o["place"]["local"]])
                else:
                    return None
            out = els
    return out


def _enc_table_idiom(prog, fe, ea):
    """Second way of writing the 1230 mask: a constant table of (band, attribute) searched with position(|&s| s == (band(), attribute())), the bit
    being C >> index (or 1 << (n-1-index)).  Returns {(band, attr): bit} or {} if the encoder is not written like that."""
    pos = [(b, t) for b, t in fe.calls() if (callee_of(t) or "").endswith("Iterator>::position")]
    if len(pos) != 1:
        return {}
    pb, pt = pos[0]
    pa = ea.call_args(pb)
    src = libmodel.iterator_source(ea.call_term(pb), ea)
    table = None
    if src is not None:
        x = src[0]
        while x.op == "call" and x.args[0] in (libmodel.INTO_ITER, "core::slice::<impl [T]>::iter") and x.args[1]:
            if x.args[0] == "core::slice::<impl [T]>::iter":
                table = _const_table(prog, x.args[1][0])
            x = x.args[1][0]
    if not table or len(table) > 8 or any(len(e) != 2 for e in table):
        return {}
    # the predicate: |&s| s == sig with sig = (signal_id.band(), signal_id.attribute())
    clo = pa[1]
    if not (clo.op == "closure" and clo.args[0] in prog.fns and len(clo.args[1]) == 1):
        return {}
    cap = clo.args[1][0]
    while cap.op in ("ref", "mem", "memval"):
        cap = cap.args[0]
    if cap.op == "loc":
        cap = ea.val(cap.args[1], (pb, 0))
    if not (cap.op == "tuple" and len(cap.args[0]) == 2 and cap.args[0][0].op == "call" and cap.args[0][0].args[0].endswith("::SigId::band")
            and cap.args[0][1].op == "call" and cap.args[0][1].args[0].endswith("::SigId::attribute")):
        return {}
    cf = prog.fn(clo.args[0])
    ca = FA(cf, prog)
    rets = cf.return_blocks()
    if len(rets) != 1:
        return {}
    rv = ca.end_val(0, rets[0])
    if not (rv.op == "call" and rv.args[0].startswith("core::tuple::<impl core::cmp::PartialEq for (") and rv.args[0].endswith(">::eq") and len(rv.args[1]) == 2):
        return {}
    def root(y):
        while y.op in ("ref", "mem", "memval"):
            y = y.args[0]
        if y.op == "loc":
            y = ca.val(y.args[1], (rets[0], 10 ** 6))
            while y.op in ("ref", "mem", "memval"):
                y = y.args[0]
        return y
    sides = [root(rv.args[1][0]), root(rv.args[1][1])]
    is_item = lambda y: y.op == "arg" and y.args[1] == 2
    is_cap = lambda y: (y.op == "pf" and y.args[1] == 0) or (y.op == "field" and y.args[1] == 0) or (y.op == "arg" and y.args[1] == 1)
    if not ((is_item(sides[0]) and is_cap(sides[1])) or (is_item(sides[1]) and is_cap(sides[0]))):
        return {}
    idx = mk("field", mk("downcast", ea.call_term(pb), 1), 0)
    enc = {}
    for b in sorted(fe.reachable()):
        for i, s_ in enumerate(fe.blocks[b]["stmts"]):
            if s_["k"] == "assign" and s_["rv"]["k"] == "binop" and s_["rv"]["op"] == "BitOr":
                v = ea.rv_term(s_["rv"], (b, i))
                bit = v.args[2]
                while bit.op == "cast":
                    bit = bit.args[1]
                if not fe.dominates(pb, b):
                    return {}
                def payload(y):
                    # the Some payload of the position result, possibly through the `ok_or(..)?` plumbing
                    while y.op == "cast":
                        y = y.args[1]
                    return y is idx or (y.op == "field" and y.args[1] == 0 and y.args[0].op == "downcast" and y.args[0].args[0] is ea.call_term(pb))
                for k, (bnd, att) in enumerate(table):
                    if bit.op == "bin" and bit.args[0] == "Shr" and is_const(bit.args[1]) and payload(bit.args[2]):
                        enc[(bnd, att)] = const_val(bit.args[1]) >> k
                    elif bit.op == "bin" and bit.args[0] == "Shl" and is_const(bit.args[1]):
                        la, lc = lin(bit.args[2])
                        if len(la) == 1 and list(la)[0][1] == -1 and payload(list(la)[0][0]):
                            enc[(bnd, att)] = const_val(bit.args[1]) << (lc - k)
                    else:
                        return {}
    return enc



def _bit_cases(ea, b, bit):
    """the or-ed bit with the block whose guards select it: the statement's own block, or - when the bit is the Ok payload of a helper's result
    joined over the helper's arms (`mask_bit(sig).map(|bit| mask | bit)`) - one case per arm"""
    x, path = bit, []
    while x.op in ("cast", "field", "downcast"):
        if x.op == "cast":
            x = x.args[1]
        else:
            path.append(x)
            x = x.args[0]
    if x.op != "phi":
        return [(b, bit)]
    out = []
    for pb, w in ea.phi_operands(x):
        # follow .Ok.0 / .Some.0 into the aggregate built in that arm
        for sel in reversed(path):
            if sel.op == "downcast":
                if not (w.op == "agg" and w.args[1] == sel.args[1]):
                    w = None
                    break
            elif sel.op == "field":
                if not (w.op == "agg" and sel.args[1] < len(w.args[3])):
                    w = None
                    break
                w = w.args[3][sel.args[1]]
        if w is not None:
            out.append((pb, w))
    return out


def rule_1230(prog, res):
    """Q-1230: mask bits <-> signals, fixed order, capacity 4."""
    mod = "df::dfs::df_msg1230_biases"
    fe, fd = prog.fn(mod + "::encode"), prog.fn(mod + "::decode")
    if fe is None or fd is None:
        if "msg1230" in set(prog.crate["features"]):
            res.missing("Q-1230", mod)
        return
    res.fn(fe)
    res.fn(fd)
    ea = FA(fe, prog)
    # encode: (band, attr) -> mask bit
    enc = {}
    for b in sorted(fe.reachable()):
        for i, s in enumerate(fe.blocks[b]["stmts"]):
            if s["k"] == "assign" and s["rv"]["k"] == "binop" and s["rv"]["op"] == "BitOr":
                v = ea.rv_term(s["rv"], (b, i))
                for gb, bit in _bit_cases(ea, b, v.args[2]):
                  if bit.op == "bin" and bit.args[0] == "Shl" and is_const(bit.args[1]) and is_const(bit.args[2]):
                    bitv = const_val(bit.args[1]) << const_val(bit.args[2])
                  elif is_const(bit):
                    bitv = const_val(bit)
                  else:
                    continue
                  band = attr = None
                  for gd in ea.guards(gb):
                    t = gd[0]
                    if t.op == "call" and t.args[0].endswith("::SigId::band") and gd[1] == "eq":
                        band = gd[2]
                    if t.op == "call" and t.args[0].endswith("::SigId::attribute") and gd[1] == "eq":
                        attr = gd[2]
                    if t.op == "field" and gd[1] == "eq":
                        # tuple (band(), attribute()) matched by fields
                        src = t.args[0]
                        if src.op == "tuple":
                            comp = src.args[0][t.args[1]]
                            if comp.op == "call" and comp.args[0].endswith("::SigId::band"):
                                band = gd[2]
                            if comp.op == "call" and comp.args[0].endswith("::SigId::attribute"):
                                attr = gd[2]
                  if band is not None and attr is not None:
                    if (band, attr) in enc and enc[(band, attr)] != bitv:
                        enc[(band, attr)] = None          # two different bits for one signal: no table
                    else:
                        enc[(band, attr)] = bitv
    if not enc:
        enc = _enc_table_idiom(prog, fe, ea)
    da = FA(fd, prog)
    dec = {}
    for b in sorted(fd.reachable()):
        t = fd.term(b)
        if t["k"] == "call" and (callee_of(t) or "").endswith("DataVec::<T, N>::push"):
            a = da.call_args(b)
            v = a[1]
            if v.op == "agg" and v.args[3]:
                sid = v.args[3][0]
                sc = sigtab._sig_consts(sid)
                idx = None
                for gd in da.guards(b):
                    tt = gd[0]
                    if tt.op == "field" and tt.args[0].op == "downcast" and tt.args[0].args[0].op == "call" and tt.args[0].args[0].args[0] == libmodel.RANGE_NEXT \
                            and gd[1] == "eq":
                        idx = gd[2]
                if sc is not None and idx is not None:
                    dec[idx] = sc
    want = {i: 1 << (3 - i) for i in range(4)}
    ok = len(enc) == 4 and len(dec) == 4 and all(enc.get(dec[i]) == want[i] for i in range(4) if i in dec)
    res.ob("Q-1230", "1230 | the signal set by mask bit (3 - i) in encode is the signal rebuilt for index i in decode", ok,
           "encode %s ; decode %s" % ({"%d%s" % (k[0], chr(k[1])): v for k, v in enc.items()}, {k: "%d%s" % (v[0], chr(v[1])) for k, v in dec.items()}), fe.loc,
           sample={"encode": {"%d%s" % (k[0], chr(k[1])): v for k, v in enc.items()}})
    # decode order i = 0..3 must equal ascending GLONASS MSM ids of those signals (the sort key in encode)
    import engine as _engine
    _probe = _engine.Result("probe")
    glo = sigtab.extract_to_id(prog, _probe, "msg::msm_mappings::glo::to_id", "Q-1230")
    if _probe.violations():
        _ev = sigtab.tables_by_evaluation(prog, "glo")
        if _ev is not None:
            glo = _ev[1]
            res.ob("Q-1230", "glo::to_id | table obtained by evaluation (the function is not written as a match)", True, _ev[2], None)
        else:
            glo = sigtab.extract_to_id(prog, res, "msg::msm_mappings::glo::to_id", "Q-1230")
    else:
        glo = sigtab.extract_to_id(prog, res, "msg::msm_mappings::glo::to_id", "Q-1230")
    oko = False
    if glo and len(dec) == 4:
        ids = [glo.get(dec[i]) for i in range(4)]
        oko = all(x is not None for x in ids) and ids == sorted(ids) and len(set(ids)) == 4
    res.ob("Q-1230", "1230 | decode order (mask bit 3 down to 0) equals the ascending signal order the encoder sorts by", oko, "", fd.loc)
    # mask test in decode: sig_mask & (1 << (3 - i)) != 0, loop 0..4, capacity 4
    div = Intervals(da, prog)
    okc = False
    for b in sorted(fd.reachable()):
        t = fd.term(b)
        if t["k"] == "call" and (callee_of(t) or "").endswith("DataVec::<T, N>::push"):
            ok_, d_ = panics.push_safe(fd, da, div, b, da.call_args(b)[0])
            okc = ok_
            if not ok_:
                break
    res.ob("Q-1230", "1230 | decoding pushes at most 4 entries into the 4-entry list", okc, "", fd.loc)
    # completeness: for every index whose mask bit is set an entry is pushed - only a clear mask bit skips an index
    import looprules
    pbs = [b for b in sorted(fd.reachable()) if fd.term(b)["k"] == "call" and (callee_of(fd.term(b)) or "").endswith("DataVec::<T, N>::push")]

    def _bit_clear(x, s_):
        for g in da.edge_guard(x, s_):
            fc = fact_of_guard(g)
            tt = fc[1] if len(fc) >= 2 and hasattr(fc[1], "op") else None
            if tt is not None and tt.op == "bin" and tt.args[0] == "BitAnd" and len(fc) == 3 and is_const(fc[2]) and const_val(fc[2]) == 0 and fc[0] == "Eq":
                return True
            # switch on the index value (match i { 0 => .., 1 => .. }) selects which signal is rebuilt: not a skip
        return False
    okp, dp = True, ""
    if pbs:
        # several push sites (one per index arm) or one: every completed iteration with the bit set passes one of them
        h_ = looprules.innermost_loop(fd, pbs[0])
        if h_ is not None:
            body_ = fd.loops()[h_]
            latches_ = {s_ for (s_, hh) in fd.back_edges() if hh == h_}
            seen_, st_ = set(), [h_]
            while st_ and okp:
                y = st_.pop()
                if y in seen_ or y in pbs or y not in body_:
                    continue
                seen_.add(y)
                for z in fd.succ(y):
                    if _bit_clear(y, z):
                        continue
                    if z == h_ and y in latches_:
                        okp, dp = False, "an index with its mask bit set can be skipped (back edge from block %d)" % y
                        break
                    st_.append(z)
    res.ob("Q-1230", "1230 | every index whose mask bit is set yields an entry (only a clear bit skips an index)", okp, dp, fd.loc)
    if pbs:
        r_ = da.call_args(pbs[0])[0]
        while r_.op in ("ref", "mem", "memval"):
            r_ = r_.args[0]
        if r_.op == "loc":
            okm_, dm_ = looprules.only_mutated_by(fd, r_.args[1], set(pbs))
            res.ob("Q-1230", "1230 | the decoded list is mutated only by those pushes", okm_, dm_, fd.loc)
    errs = set()
    for b in sorted(fe.reachable()):
        for i, s in enumerate(fe.blocks[b]["stmts"]):
            if s["k"] == "assign" and s["place"]["local"] == 0 and s["rv"]["k"] == "aggregate" and s["rv"].get("vname") == "Err":
                v = ea.rv_term(s["rv"], (b, i))
                _ev = err_variant(v, ea)
                if _ev is not None:
                    errs.add(_ev)
    res.ob("Q-1230", "1230 | an entry with any other signal is refused with InvalidSignalId", errs == {"InvalidSignalId"}, str(sorted(errs)), fe.loc)


def rule_decode_capacity(prog, res):
    """Decoding never yields more entries than the list capacity: the push sites of the three decoders."""
    for mod in ("df::dfs::df_msg1059_biases", "df::dfs::df_msg1065_biases", "df::dfs::df_msg1230_biases"):
        f = prog.fn(mod + "::decode")
        if f is None:
            continue
        res.fn(f)
        fa = FA(f, prog)
        iv = Intervals(fa, prog)
        n = 0
        for b, t in f.calls():
            if (callee_of(t) or "").endswith("DataVec::<T, N>::push"):
                n += 1
                ok, d = panics.push_safe(f, fa, iv, b, fa.call_args(b)[0])
                res.ob("P-push", "%s::decode | push cannot exceed the capacity" % mod, ok, d, {"file": f.loc["file"], "line": t["line"]}, sample=d)
        res.floor("P-push", "%s::decode push sites" % mod, n, 1)
