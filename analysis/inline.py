"""Helper inlining on the exported MIR.

The rules of this repository are written over a vocabulary of functions they know by role (put, parse, the codec
encode/decode functions, DataVec methods, MessageFrame::new and its accessors, ...).  A refactor that moves a few lines
into a new private helper (or a generic helper taking a closure) does not change behaviour, but it hides those lines
from an intraprocedural rule.  This pre-pass restores the rules' view: every call of a crate-local function that is NOT
part of the known vocabulary (oracles/known_functions.json: today's function paths with digits abstracted) is replaced
by the callee's body - locals and blocks renumbered, generic parameters substituted by the call's resolved generic
arguments, `FnMut::call_mut` / `FnOnce::call_once` / `Fn::call` on a closure of known type rewritten to a direct call of
the closure body (which is then inlined as well).  Functions of the vocabulary are never inlined, so on the unchanged
tree this pass is the identity.  Bounds: depth <= 4, callee <= 400 blocks, no recursion; beyond them the call is left
alone and the rules fail closed as before.
"""
import copy
import json
import os
import re

MAX_BLOCKS = 400
MAX_DEPTH = 4

_NUM = re.compile(r"\d+")


def norm_path(p):
    return _NUM.sub("N", p)


def load_vocabulary():
    import engine
    p = os.path.join(engine.VERIF, "oracles", "known_functions.json")
    with open(p) as f:
        return set(json.load(f)["paths"])


def is_helper(path, vocab):
    if "{closure#" in path:
        # a closure belongs to its parent: it is a helper iff it is called directly after a rewrite (handled at the call)
        return False
    return norm_path(path) not in vocab


# ---------------------------------------------------------------- generic substitution
def subst(x, sub):
    """sub: {param name: type json | ('const', value)}"""
    if isinstance(x, dict):
        k = x.get("k")
        if k == "param" and x.get("name") in sub and not isinstance(sub[x["name"]], tuple):
            return copy.deepcopy(sub[x["name"]])
        if k == "const" and "val" not in x and x.get("s") in sub and isinstance(sub[x["s"]], tuple):
            v = sub[x["s"]][1]
            y = dict(x)
            y["val"] = v
            y["bits"] = v
            y.setdefault("size", 8)
            if "ty" in y:
                y["ty"] = subst(y["ty"], sub)
            return y
        out = {}
        for kk, v in x.items():
            if kk == "len" and isinstance(v, str) and v in sub and isinstance(sub[v], tuple):
                out[kk] = sub[v][1]
            elif kk == "s" and isinstance(v, str):
                out[kk] = subst_str(v, sub)
            else:
                out[kk] = subst(v, sub)
        return out
    if isinstance(x, list):
        return [subst(v, sub) for v in x]
    return x


def subst_str(s, sub):
    for name, v in sub.items():
        if isinstance(v, tuple):
            rep = str(v[1])
        else:
            rep = v.get("s") or v.get("name") or v.get("path") or v.get("k")
        s = re.sub(r"\b%s\b" % re.escape(name), rep.replace("\\", "\\\\"), s)
    return s


def generic_map(callee_rec, call):
    names = callee_rec.get("generics") or []
    args = call.get("rargs") or call.get("cargs") or []
    if len(names) != len(args):
        return None
    sub = {}
    for n, a in zip(names, args):
        if a.get("k") == "const" and "val" in a:
            sub[n] = ("const", a["val"])
        else:
            sub[n] = a
    return sub


# ---------------------------------------------------------------- renumbering
def shift_place(p, dl):
    q = {"local": p["local"] + dl, "proj": []}
    for pr in p["proj"]:
        if pr.get("k") == "index" and "local" in pr:
            pr = dict(pr)
            pr["local"] = pr["local"] + dl
        q["proj"].append(pr)
    return q


def shift_any(x, dl):
    """Shift every place inside a statement / rvalue / operand / terminator (targets are handled separately)."""
    if isinstance(x, dict):
        if "local" in x and "proj" in x and isinstance(x["proj"], list):
            return shift_place(x, dl)
        return {k: shift_any(v, dl) for k, v in x.items()}
    if isinstance(x, list):
        return [shift_any(v, dl) for v in x]
    return x


def shift_targets(t, db):
    t = dict(t)
    k = t["k"]
    if k == "goto":
        t["target"] += db
    elif k == "switch":
        t["arms"] = [[v, tb + db] for v, tb in t["arms"]]
        t["otherwise"] += db
    elif k in ("drop", "assert", "call"):
        if t.get("target") is not None:
            t["target"] += db
        if t.get("unwind") is not None and isinstance(t.get("unwind"), int):
            t["unwind"] += db
    return t


CLOSURE_CALLS = ("core::ops::FnMut::call_mut", "core::ops::FnOnce::call_once", "core::ops::Fn::call")


def closure_type_of(ty):
    while ty and ty.get("k") == "ref":
        ty = ty.get("to")
    if ty and ty.get("k") == "closure":
        return ty["path"]
    return None


_CALL_SITES = {}


_DISPATCH = {}


def _dispatches_on_self(fns, callee):
    """callee is a method a trait provides (default body, generic over Self) and at least one impl of the trait has its own body for it"""
    key = (id(fns), callee)
    if key not in _DISPATCH:
        crec = fns[callee] if isinstance(fns.get(callee), dict) else getattr(fns.get(callee), "rec", None)
        r = False
        if crec and crec.get("kind") == "AssocFn" and crec.get("impl") is None and "Self" in (crec.get("generics") or []) and not callee.startswith("<"):
            name = callee.rsplit("::", 1)[1]
            trait = callee.rsplit("::", 1)[0]
            suffix = " as %s>::%s" % (trait, name)
            r = any(isinstance(p_, str) and p_.startswith("<") and p_.endswith(suffix) for p_ in fns)
        _DISPATCH[key] = r
    return _DISPATCH[key]


def inline_once(rec, fns, vocab, depth_of, stats):
    """One pass over the blocks of `rec`: inline the first-level helper calls.  Returns True if something changed."""
    changed = False
    nb = len(rec["blocks"])
    for b in range(nb):
        t = rec["blocks"][b]["term"]
        if t["k"] != "call" or t.get("target") is None:
            continue
        callee = t.get("resolved") or t.get("callee")
        args = t["args"]
        spread = False
        if callee in CLOSURE_CALLS and t.get("cargs"):
            cp = closure_type_of(t["cargs"][0])
            if cp and cp in fns:
                callee = cp
                spread = True
            else:
                continue
        elif callee not in fns or not is_helper(callee, vocab):
            continue
        elif not t.get("resolved") and _dispatches_on_self(fns, callee):
            # `T::method(..)` on a generic T whose trait provides a default body that some impl overrides: which body runs depends on T,
            # the default must not be taken for it
            continue
        crec = fns[callee]
        if callee == rec["path"] or (len(crec["blocks"]) > MAX_BLOCKS and not (_CALL_SITES.get(callee) == 1 and len(crec["blocks"]) <= 4 * MAX_BLOCKS)):
            # (a helper with a single call site is inlined whatever its size: a function split in two for readability)
            continue
        d = depth_of.get((rec["path"], b), 0)
        if d >= MAX_DEPTH:
            continue
        sub = generic_map(crec, t) if not spread else {}
        if sub is None:
            sub = {}
        if spread:
            # closure generics = the parent's generics: the caller is already an instance, nothing to substitute
            pass
        dl = len(rec["locals"])
        db = len(rec["blocks"])
        clocals = subst(crec["locals"], sub) if sub else copy.deepcopy(crec["locals"])
        rec["locals"].extend(clocals)
        # argument passing
        pre = []
        argc = crec.get("argc", 0)
        call_args = list(args)
        if spread:
            # (closure_ref, (a, b, ..)) -> closure_ref, a, b, ...   : the tuple operand must be a local holding an aggregate
            if len(call_args) == 2 and argc >= 1:
                tup = call_args[1]
                n_extra = argc - 1
                extra = []
                if n_extra == 0:
                    extra = []
                elif tup["k"] in ("move", "copy"):
                    for i in range(n_extra):
                        ety = clocals[2 + i]
                        extra.append({"k": tup["k"], "place": {"local": tup["place"]["local"], "proj": list(tup["place"]["proj"]) + [{"k": "field", "i": i, "ty": ety}]}})
                else:
                    rec["locals"] = rec["locals"][:dl]
                    continue
                call_args = [call_args[0]] + extra
        if len(call_args) != argc:
            rec["locals"] = rec["locals"][:dl]
            continue
        for i, a in enumerate(call_args):
            if spread and i == 0 and clocals[1].get("k") == "ref" and a["k"] in ("move", "copy") and not a["place"]["proj"] \
                    and rec["locals"][a["place"]["local"]].get("k") == "closure":
                # FnOnce::call_once(closure by value) on a body that takes &closure: pass a reference to the caller's local
                pre.append({"k": "assign", "place": {"local": dl + 1, "proj": []}, "rv": {"k": "ref", "mut": bool(clocals[1].get("mut")), "place": {"local": a["place"]["local"], "proj": []}},
                            "line": t.get("line"), "inl": callee})
                continue
            pre.append({"k": "assign", "place": {"local": dl + 1 + i, "proj": []}, "rv": {"k": "use", "op": a}, "line": t.get("line"), "inl": callee})
        # callee blocks.  When the call writes a plain local, the callee's return place IS that local (so `_0 = Err(..)` in
        # a helper stays an in-place return of the caller); otherwise a fresh local is copied out at each return.
        direct = not t["dest"]["proj"]
        ret_local = t["dest"]["local"] if direct else dl

        def fix_ret(x):
            if not direct:
                return x
            if isinstance(x, dict):
                if "local" in x and "proj" in x and isinstance(x["proj"], list):
                    if x["local"] == dl:
                        return {"local": ret_local, "proj": x["proj"]}
                    return x
                return {k: fix_ret(v) for k, v in x.items()}
            if isinstance(x, list):
                return [fix_ret(v) for v in x]
            return x
        for j, cb in enumerate(crec["blocks"]):
            stmts = []
            for s in cb["stmts"]:
                s2 = fix_ret(shift_any(subst(s, sub) if sub else copy.deepcopy(s), dl))
                stmts.append(s2)
            ct = cb["term"]
            if ct["k"] == "return":
                if not direct:
                    stmts.append({"k": "assign", "place": copy.deepcopy(t["dest"]), "rv": {"k": "use", "op": {"k": "move", "place": {"local": dl, "proj": []}}},
                                  "line": t.get("line"), "inl": callee})
                nt = {"k": "goto", "target": t["target"]}
            else:
                nt = shift_targets(fix_ret(shift_any(subst(ct, sub) if sub else copy.deepcopy(ct), dl)), db)
            rec["blocks"].append({"stmts": stmts, "term": nt})
            depth_of[(rec["path"], db + j)] = d + 1
        blk = rec["blocks"][b]
        blk["stmts"] = list(blk["stmts"]) + pre
        blk["term"] = {"k": "goto", "target": db}
        # debug names of the callee, for readable terms
        short = callee.rsplit("::", 1)[-1]
        for n, pl in crec.get("debug", []):
            if not pl["proj"]:
                rec.setdefault("debug", []).append([n, {"local": pl["local"] + dl, "proj": []}])
        stats.setdefault(rec["path"], []).append(callee)
        changed = True
    return changed


# ---------------------------------------------------------------- desugaring of a few core combinators
BOOL = {"k": "bool"}
ITER_NEXT_OF = {"core::slice::Iter": "<core::slice::Iter<'a, T> as core::iter::Iterator>::next",
                "core::slice::IterMut": "<core::slice::IterMut<'a, T> as core::iter::Iterator>::next",
                "core::str::Bytes": "<core::str::Bytes as core::iter::Iterator>::next",
                "core::str::Chars": "<core::str::Chars as core::iter::Iterator>::next"}
ADAPTOR_NEXT_OF = {"core::iter::Enumerate": "<core::iter::Enumerate<I> as core::iter::Iterator>::next",
                   "core::iter::Map": "<core::iter::Map<I, F> as core::iter::Iterator>::next"}
CONTAINS = {"core::ops::RangeInclusive::<Idx>::contains": "Le", "core::ops::Range::<Idx>::contains": "Lt"}
TRY_BRANCH = "<core::result::Result<T, E> as core::ops::Try>::branch"
FROM_RESIDUAL = "<core::result::Result<T, F> as core::ops::FromResidual<core::result::Result<core::convert::Infallible, E>>>::from_residual"


def resolve_fn_item(prog, fty):
    """A function item named through its trait (`From::from` with Self = ArrayString<..>): the crate impl method, if unique."""
    path = fty["path"]
    if path in prog.fns:
        return path
    args = fty.get("args") or []
    if "::" not in path or not args or args[0].get("k") != "adt":
        return None
    trait, meth = path.rsplit("::", 1)
    selfp = args[0]["path"]
    cands = [p for p in prog.fns if p.startswith("<" + selfp) and (" as " + trait) in p and p.endswith(">::" + meth)]
    return cands[0] if len(cands) == 1 else None


def _variant_ctor(prog, fty):
    """fn item that is the constructor of a tuple variant of a crate enum -> (adt path, variant index, variant name, generic args)"""
    path = fty.get("path") or ""
    if "::" not in path:
        return None
    apath, vname = path.rsplit("::", 1)
    adt = prog.adts.get(apath)
    if adt is None:
        return None
    for i, v in enumerate(adt.get("variants", [])):
        if v.get("name") == vname and len(v.get("fields", [])) == 1:
            return apath, i, vname, fty.get("args") or []
    return None


NEXT_RESOLVE = {"core::str::Chars": "<core::str::Chars as core::iter::Iterator>::next",
                "core::str::Bytes": "<core::str::Bytes as core::iter::Iterator>::next",
                "core::slice::Iter": "<core::slice::Iter<'a, T> as core::iter::Iterator>::next",
                "core::slice::IterMut": "<core::slice::IterMut<'a, T> as core::iter::Iterator>::next",
                "core::ops::Range": "core::iter::range::<impl core::iter::Iterator for core::ops::Range<A>>::next",
                "core::ops::RangeInclusive": "core::iter::range::<impl core::iter::Iterator for core::ops::RangeInclusive<A>>::next"}


def lower_int_conversions(rec, stats):
    """`x.into()` / `U::from(x)` between primitive integers: core implements From only for the value-preserving conversions (anything else does
    not compile), so the call is the cast."""
    changed = False
    for blk in rec["blocks"]:
        t = blk["term"]
        if t["k"] != "call" or t.get("target") is None or t["dest"]["proj"] or len(t.get("args", [])) != 1:
            continue
        c = t.get("callee")
        ca = t.get("cargs") or []
        if c == "core::convert::Into::into" and len(ca) == 2:
            sty, dty = ca[0], ca[1]
        elif c == "core::convert::From::from" and len(ca) == 2:
            dty, sty = ca[0], ca[1]
        else:
            continue
        if not (isinstance(sty, dict) and isinstance(dty, dict) and sty.get("k") in ("int", "uint") and dty.get("k") in ("int", "uint")):
            continue
        blk["stmts"] = list(blk["stmts"]) + [{"k": "assign", "place": copy.deepcopy(t["dest"]),
                                             "rv": {"k": "cast", "kind": "IntToInt", "op": copy.deepcopy(t["args"][0]), "ty": dty}, "line": t.get("line")}]
        blk["term"] = {"k": "goto", "target": t["target"]}
        changed = True
    if changed:
        stats.setdefault(rec["path"], []).append("int-from")
    return changed


DATAVEC_CAP = "util::data_vec::DataVec::<T, N>::capacity"
ARRAYVEC_CAP = "tinyvec::ArrayVec::<A>::capacity"


def _capacity_is_array_len(recs):
    """DataVec::capacity is nothing but the capacity of the wrapped ArrayVec<[T; N]> - which tinyvec defines as the array length N"""
    g = recs.get(DATAVEC_CAP)
    if g is None:
        return False
    calls = [b["term"] for b in g["blocks"] if b["term"]["k"] == "call"]
    if len(calls) != 1 or (calls[0].get("resolved") or calls[0].get("callee")) != ARRAYVEC_CAP or calls[0]["dest"] != {"local": 0, "proj": []}:
        return False
    ca = calls[0].get("cargs") or []
    return len(ca) == 1 and ca[0].get("k") == "array" and ca[0].get("len") == "N" and all(not b["stmts"] or all(s_["k"] != "assign" or s_["place"]["local"] != 0
                                                                                                   for s_ in b["stmts"]) for b in g["blocks"])


def lower_capacity(rec, recs, stats):
    """`v.capacity()` of a DataVec<T, N> / ArrayVec<[T; N]> with a literal N: the constant N"""
    changed = False
    for blk in rec["blocks"]:
        t = blk["term"]
        if t["k"] != "call" or t.get("target") is None or t["dest"]["proj"] or len(t.get("args", [])) != 1:
            continue
        c = t.get("resolved") or t.get("callee")
        ca = t.get("cargs") or []
        n = None
        if c == DATAVEC_CAP and len(ca) == 2 and ca[1].get("k") == "const" and isinstance(ca[1].get("val"), int) and _capacity_is_array_len(recs):
            n = ca[1]["val"]
        elif c == ARRAYVEC_CAP and len(ca) == 1 and ca[0].get("k") == "array" and isinstance(ca[0].get("len"), int) and rec["path"] != DATAVEC_CAP:
            n = ca[0]["len"]
        if n is None:
            continue
        usz = {"k": "uint", "bits": 64, "name": "usize"}
        blk["stmts"] = list(blk["stmts"]) + [{"k": "assign", "place": copy.deepcopy(t["dest"]),
                                             "rv": {"k": "use", "op": {"k": "const", "ty": usz, "bits": n, "val": n, "size": 8}}, "line": t.get("line")}]
        blk["term"] = {"k": "goto", "target": t["target"]}
        changed = True
    if changed:
        stats.setdefault(rec["path"], []).append("capacity-const")
    return changed


def reresolve(rec, stats):
    """After a generic helper was inlined with its type parameters substituted, trait calls on the now concrete iterator type get the path rustc
    would have resolved them to (`Iterator::next` on `Chars`), and `into_iter` of an iterator is the identity."""
    changed = False
    for blk in rec["blocks"]:
        t = blk["term"]
        if t["k"] != "call" or t.get("resolved"):
            continue
        ca = t.get("cargs") or []
        if t.get("callee") == "core::iter::Iterator::next" and ca and ca[0].get("k") == "adt" and ca[0].get("path") in NEXT_RESOLVE:
            t["resolved"] = NEXT_RESOLVE[ca[0]["path"]]
            t["rargs"] = ca[0].get("args", [])
            changed = True
        elif t.get("callee") == "core::iter::IntoIterator::into_iter" and ca and ca[0].get("k") == "adt" and ca[0].get("path") in NEXT_RESOLVE:
            t["resolved"] = "<I as core::iter::IntoIterator>::into_iter"
            t["rargs"] = [ca[0]]
            changed = True
        elif t.get("callee") in CLOSURE_CALLS and len(ca) == 2 and ca[0].get("k") == "fndef" and ca[0].get("path") and not ca[0].get("args") \
                and len(t.get("args", [])) == 2 and t["args"][1]["k"] in ("move", "copy") and ca[1].get("k") == "tuple":
            # `f(x)` inside a generic helper instantiated with a function item (`decode_frag_list(par, len, msgN_sat::decode)`): the call of
            # that function with the tuple's fields
            tup = t["args"][1]
            elems = ca[1].get("elems") or []
            t["args"] = [{"k": tup["k"], "place": {"local": tup["place"]["local"], "proj": list(tup["place"]["proj"]) + [{"k": "field", "i": i, "ty": ety}]}}
                         for i, ety in enumerate(elems)]
            t["callee"] = ca[0]["path"]
            t["resolved"] = ca[0]["path"]
            t["cargs"] = []
            t["rargs"] = []
            t["rkind"] = "item"
            t.pop("fnop", None)
            changed = True
            stats.setdefault(rec["path"], []).append("fn-item-call")
    # operator traits on primitive numbers (`a - b`, `a >= b` in a generic helper instantiated at i8 / f64): the MIR of the operator itself.
    # `impl Sub for i8` etc. are #[rustc_inherit_overflow_checks]: they panic on overflow exactly when `a - b` written in this crate would,
    # so the integer forms become the checked operation followed by the overflow assertion, as rustc emits for the expression.
    ARITH = {"core::ops::Add::add": "Add", "core::ops::Sub::sub": "Sub", "core::ops::Mul::mul": "Mul", "core::ops::Div::div": "Div", "core::ops::Rem::rem": "Rem",
             "core::ops::BitAnd::bitand": "BitAnd", "core::ops::BitOr::bitor": "BitOr", "core::ops::BitXor::bitxor": "BitXor"}
    CMP = {"core::cmp::PartialOrd::ge": "Ge", "core::cmp::PartialOrd::gt": "Gt", "core::cmp::PartialOrd::le": "Le", "core::cmp::PartialOrd::lt": "Lt",
           "core::cmp::PartialEq::eq": "Eq", "core::cmp::PartialEq::ne": "Ne"}
    prim = lambda ty_: isinstance(ty_, dict) and ty_.get("k") in ("int", "uint", "float")
    for bi in range(len(rec["blocks"])):
        blk = rec["blocks"][bi]
        t = blk["term"]
        if t["k"] != "call" or t.get("resolved") or t.get("target") is None or t["dest"]["proj"]:
            continue
        ca = t.get("cargs") or []
        c = t.get("callee")
        if len(ca) < 2 or not prim(ca[0]) or ca[0] != ca[1] or len(t["args"]) != 2:
            continue
        line = t.get("line")
        if c in ARITH:
            op = ARITH[c]
            if ca[0]["k"] != "float" and op in ("Add", "Sub", "Mul"):
                n = len(rec["locals"])
                rec["locals"].append({"k": "tuple", "elems": [ca[0], {"k": "bool"}]})
                nb = len(rec["blocks"])
                blk["stmts"] = list(blk["stmts"]) + [{"k": "assign", "place": {"local": n, "proj": []},
                                                     "rv": {"k": "binop", "op": op + "WithOverflow", "a": copy.deepcopy(t["args"][0]), "b": copy.deepcopy(t["args"][1])}, "line": line}]
                blk["term"] = {"k": "assert", "cond": {"k": "move", "place": {"local": n, "proj": [{"k": "field", "i": 1, "ty": {"k": "bool"}}]}}, "expected": False,
                               "kind": "Overflow:" + op, "ops": [copy.deepcopy(t["args"][0]), copy.deepcopy(t["args"][1])], "msg": None, "target": nb, "line": line}
                rec["blocks"].append({"stmts": [{"k": "assign", "place": copy.deepcopy(t["dest"]),
                                                 "rv": {"k": "use", "op": {"k": "move", "place": {"local": n, "proj": [{"k": "field", "i": 0, "ty": ca[0]}]}}}, "line": line}],
                                      "term": {"k": "goto", "target": t["target"]}})
            elif op in ("Div", "Rem") and ca[0]["k"] != "float":
                continue          # division by zero / MIN / -1 checks: left as the call
            else:
                blk["stmts"] = list(blk["stmts"]) + [{"k": "assign", "place": copy.deepcopy(t["dest"]),
                                                     "rv": {"k": "binop", "op": op, "a": copy.deepcopy(t["args"][0]), "b": copy.deepcopy(t["args"][1])}, "line": line}]
                blk["term"] = {"k": "goto", "target": t["target"]}
            changed = True
        elif c in CMP and all(a["k"] in ("move", "copy") and not a["place"]["proj"] and rec["locals"][a["place"]["local"]].get("k") == "ref" for a in t["args"]):
            da = [{"k": "copy", "place": {"local": a["place"]["local"], "proj": [{"k": "deref"}]}} for a in t["args"]]
            blk["stmts"] = list(blk["stmts"]) + [{"k": "assign", "place": copy.deepcopy(t["dest"]), "rv": {"k": "binop", "op": CMP[c], "a": da[0], "b": da[1]}, "line": line}]
            blk["term"] = {"k": "goto", "target": t["target"]}
            changed = True
    if changed:
        stats.setdefault(rec["path"], []).append("reresolve")
    return changed


def _closure_arg_ty(prog, rec, f_op):
    """type of the (single) parameter of a closure operand, from the closure body's locals; None if unknown"""
    if f_op.get("k") not in ("move", "copy") or f_op["place"]["proj"]:
        return None
    fty = rec["locals"][f_op["place"]["local"]]
    if fty.get("k") != "closure" or fty.get("path") not in prog.fns:
        return None
    cl = prog.fns[fty["path"]].rec
    return cl["locals"][2] if len(cl["locals"]) >= 3 and cl.get("argc", 2) == 2 else None


def _single_def(rec, local):
    """The only statement / call that writes `local` (whole local), or None."""
    found = []
    for bi, blk in enumerate(rec["blocks"]):
        for si, st in enumerate(blk["stmts"]):
            if st["k"] == "assign" and st["place"]["local"] == local and not st["place"]["proj"]:
                found.append(("stmt", bi, si, st))
        t = blk["term"]
        if t["k"] == "call" and t["dest"]["local"] == local and not t["dest"]["proj"]:
            found.append(("call", bi, None, t))
    return found[0] if len(found) == 1 else None


def _range_bounds(rec, prog, op):
    """op: operand holding &Range / &RangeInclusive.  Returns (lo, hi) constant operands or None."""
    if op["k"] not in ("move", "copy") or op["place"]["proj"]:
        return None
    d = _single_def(rec, op["place"]["local"])
    if d is None or d[0] != "stmt" or d[3]["rv"]["k"] != "ref":
        return None
    pl = d[3]["rv"]["place"]
    base = pl["local"]
    if pl["proj"] == [{"k": "deref"}]:
        d2 = _single_def(rec, base)
        if d2 is None or d2[0] != "stmt" or d2[3]["rv"]["k"] != "use":
            return None
        c = d2[3]["rv"]["op"]
        if c.get("k") == "const" and c.get("ck") == "promoted":
            pr = prog.promoted.get(c.get("s"))
            if pr is None:
                return None
            return _bounds_in_body(pr)
        return None
    if not pl["proj"]:
        d2 = _single_def(rec, base)
        if d2 is None:
            return None
        if d2[0] == "call" and (d2[3].get("resolved") or d2[3].get("callee")) == "core::ops::RangeInclusive::<Idx>::new":
            a = d2[3]["args"]
            if all(x.get("k") == "const" and "val" in x for x in a):
                return a[0], a[1]
        if d2[0] == "stmt" and d2[3]["rv"]["k"] == "aggregate" and (d2[3]["rv"].get("path") or "").startswith("core::ops::Range"):
            a = d2[3]["rv"]["ops"]
            if len(a) == 2 and all(x.get("k") == "const" and "val" in x for x in a):
                return a[0], a[1]
    return None


def _bounds_in_body(pr):
    for blk in pr["blocks"]:
        t = blk["term"]
        if t["k"] == "call" and (t.get("resolved") or t.get("callee")) == "core::ops::RangeInclusive::<Idx>::new":
            a = t["args"]
            if all(x.get("k") == "const" and "val" in x for x in a):
                return a[0], a[1]
        for st in blk["stmts"]:
            if st["k"] == "assign" and st["rv"]["k"] == "aggregate" and (st["rv"].get("path") or "").startswith("core::ops::Range"):
                a = st["rv"]["ops"]
                if len(a) == 2 and all(x.get("k") == "const" and "val" in x for x in a):
                    return a[0], a[1]
    return None


def _preds(rec):
    pr = {}
    for bi, blk in enumerate(rec["blocks"]):
        t = blk["term"]
        k = t["k"]
        tg = []
        if k == "goto":
            tg = [t["target"]]
        elif k == "switch":
            tg = [x[1] for x in t["arms"]] + [t["otherwise"]]
        elif k in ("drop", "assert", "call"):
            tg = [t["target"]] if t.get("target") is not None else []
        for x in tg:
            pr.setdefault(x, set()).add(bi)
    return pr


ADAPTOR_NEXT = {"core::iter::FilterMap": ("<core::iter::FilterMap<I, F> as core::iter::Iterator>::next", "core::iter::Iterator::filter_map"),
                "core::iter::Filter": ("<core::iter::Filter<I, P> as core::iter::Iterator>::next", "core::iter::Iterator::filter"),
                "core::iter::Map": ("<core::iter::Map<I, F> as core::iter::Iterator>::next", "core::iter::Iterator::map")}
GENERIC_NEXT = {"core::slice::Iter": "<core::slice::Iter<'a, T> as core::iter::Iterator>::next",
                "core::slice::IterMut": "<core::slice::IterMut<'a, T> as core::iter::Iterator>::next",
                "core::iter::Enumerate": "<core::iter::Enumerate<I> as core::iter::Iterator>::next",
                "core::iter::Skip": "<core::iter::Skip<I> as core::iter::Iterator>::next",
                "core::iter::Take": "<core::iter::Take<I> as core::iter::Iterator>::next",
                "core::iter::Rev": "<core::iter::Rev<I> as core::iter::Iterator>::next",
                "core::iter::Copied": "<core::iter::Copied<I> as core::iter::Iterator>::next",
                "core::iter::Cloned": "<core::iter::Cloned<I> as core::iter::Iterator>::next",
                "core::iter::Zip": "<core::iter::Zip<A, B> as core::iter::Iterator>::next",
                "core::ops::Range": "core::iter::range::<impl core::iter::Iterator for core::ops::Range<A>>::next",
                "core::ops::RangeInclusive": "core::iter::range::<impl core::iter::Iterator for core::ops::RangeInclusive<A>>::next"}


def _uses_of(rec, local):
    pat = '"local": %d,' % local
    return sum(json.dumps(bk["stmts"]).count(pat) + json.dumps(bk["term"]).count(pat) for bk in rec["blocks"])


def desugar_adaptor_next(rec, prog, stats):
    """`for y in it.filter_map(f)` / `.filter(p)`: the call of FilterMap::next (Filter::next) is replaced by its definition over the underlying
    iterator and the closure -
        loop { match it.next() { None => break None, Some(x) => if let Some(y) = f(x) { break Some(y) } } }
    - so that the loop reads like the hand-written `for x in it { if let Some(y) = f(x) { .. } }`.  Applied only when the adaptor value is built
    once, by filter_map / filter on a plain local iterator with a closure literal, and reaches the `next` call through moves, into_iter and
    re-borrows only (every link is a single definition)."""
    for bi, blk in enumerate(rec["blocks"]):
        t = blk["term"]
        if t["k"] != "call" or t.get("target") is None or len(t.get("args", [])) != 1 or t["dest"]["proj"]:
            continue
        c = t.get("resolved") or t.get("callee")
        kind = [k for k, v in ADAPTOR_NEXT.items() if v[0] == c]
        if not kind:
            continue
        kind = kind[0]
        a = t["args"][0]
        if a["k"] != "move" or a["place"]["proj"]:
            continue
        # follow the re-borrow chain inside this block down to the adaptor local
        drop_stmts = []
        cur = a["place"]["local"]
        base = None
        for _ in range(4):
            d = _single_def(rec, cur)
            if d is None or d[0] != "stmt" or d[1] != bi or d[3]["rv"]["k"] != "ref" or _uses_of(rec, cur) != 2:
                break
            pl = d[3]["rv"]["place"]
            drop_stmts.append(d[3])
            if not pl["proj"]:
                base = pl["local"]
                break
            if [x["k"] for x in pl["proj"]] != ["deref"]:
                break
            cur = pl["local"]
        if base is None or rec["locals"][base].get("path") != kind:
            continue
        if kind.endswith("Filter") and os.environ.get("VERIF_DESUGAR_FILTER") != "1" and base not in rec.get("_expand_filter", ()):
            # Filter::next is left as it is: the list rules (Q-pred / Q-flow of the SSR encoders, K-*) are written against the adaptor form
            # `for e in v.iter().filter(p)`, which today's tree uses; FilterMap (not used today) is expanded, and a Filter that sits under an
            # expanded Enumerate (desugar_enumerate_over_adaptor)
            continue
        # follow moves / into_iter back to the constructor call
        chain = []          # (what, block, stmt index / None)
        cur = base
        ctor = None
        for _ in range(6):
            d = _single_def(rec, cur)
            if d is None:
                break
            if d[0] == "stmt" and d[3]["rv"]["k"] == "use" and d[3]["rv"]["op"]["k"] == "move" and not d[3]["rv"]["op"]["place"]["proj"]:
                chain.append(d)
                cur = d[3]["rv"]["op"]["place"]["local"]
                continue
            if d[0] == "call":
                cc = d[3].get("resolved") or d[3].get("callee")
                if cc.endswith("::into_iter") and len(d[3]["args"]) == 1 and d[3]["args"][0]["k"] == "move" and not d[3]["args"][0]["place"]["proj"]:
                    chain.append(d)
                    cur = d[3]["args"][0]["place"]["local"]
                    continue
                if (d[3].get("callee") == ADAPTOR_NEXT[kind][1] or cc == ADAPTOR_NEXT[kind][1]) and len(d[3]["args"]) == 2:
                    ctor = d
            break
        if ctor is None:
            continue
        it_op, f_op = ctor[3]["args"]
        if not (it_op["k"] == "move" and not it_op["place"]["proj"] and f_op["k"] == "move" and not f_op["place"]["proj"]):
            continue
        itl, fl = it_op["place"]["local"], f_op["place"]["local"]
        ity, fty = rec["locals"][itl], rec["locals"][fl]
        inner_next = GENERIC_NEXT.get(ity.get("path")) if ity.get("k") == "adt" else None
        if inner_next is None and kind.endswith("::Map") and ity.get("k") == "adt" and ity.get("path") in ADAPTOR_NEXT:
            # map over filter / filter_map / map: the inner adaptor's next is expanded in turn
            inner_next = ADAPTOR_NEXT[ity["path"]][0]
        if fty.get("k") != "closure" or inner_next is None or fty["path"] not in prog.fns:
            continue
        if ity["path"] in ADAPTOR_NEXT:
            rec.setdefault("_expand_filter", set()).add(itl)
        cl = prog.fns[fty["path"]].rec
        if len(cl["locals"]) < 3:
            continue
        arg_ty = cl["locals"][2]                     # FilterMap / Map: the item; Filter: &item
        item_ty = arg_ty if kind.endswith(("FilterMap", "::Map")) else (arg_ty.get("to") if arg_ty.get("k") == "ref" else None)
        if item_ty is None:
            continue
        dty = rec["locals"][t["dest"]["local"]]
        line = t.get("line")
        # 1. the constructor and the links become no-ops; an into_iter link is kept, applied to the underlying iterator (the shape of a plain
        #    `for x in it`), and the loop then borrows its result
        rec["blocks"][ctor[1]]["term"] = {"k": "goto", "target": ctor[3]["target"]}
        for d in chain:
            if d[0] == "stmt":
                rec["blocks"][d[1]]["stmts"] = [x for x in rec["blocks"][d[1]]["stmts"] if x is not d[3]]
            else:
                if itl == it_op["place"]["local"]:
                    nl = len(rec["locals"])
                    rec["locals"].append(ity)
                    tt = copy.deepcopy(d[3])
                    tt["args"] = [{"k": "move", "place": {"local": itl, "proj": []}}]
                    tt["dest"] = {"local": nl, "proj": []}
                    tt["cargs"] = [ity]
                    tt["rargs"] = [ity]
                    tt.pop("fnop", None)
                    rec["blocks"][d[1]]["term"] = tt
                    itl = nl
                else:
                    rec["blocks"][d[1]]["term"] = {"k": "goto", "target": d[3]["target"]}
        blk["stmts"] = [x for x in blk["stmts"] if not any(x is y for y in drop_stmts)]
        # 2. the definition of next
        n = len(rec["locals"])
        opt_item = {"k": "adt", "path": "core::option::Option", "args": [item_ty], "s": "core::option::Option<Item>"}
        isz = {"k": "int", "bits": 64, "name": "isize"}
        rec["locals"].extend([{"k": "ref", "mut": True, "to": ity}, opt_item, isz, item_ty, {"k": "tuple", "elems": [arg_ty]}, {"k": "ref", "mut": True, "to": fty},
                              cl["locals"][0], isz, arg_ty])
        r, x, dx, item, tup, cr, y, dy, iref = range(n, n + 9)
        nb = len(rec["blocks"])
        SW, NONE, SOME, SW2, HIT, UNR = nb, nb + 1, nb + 2, nb + 3, nb + 4, nb + 5
        blk["stmts"] = list(blk["stmts"]) + [{"k": "assign", "place": {"local": r, "proj": []}, "rv": {"k": "ref", "mut": True, "place": {"local": itl, "proj": []}}, "line": line}]
        blk["term"] = {"k": "call", "callee": "core::iter::Iterator::next", "resolved": inner_next, "cargs": [ity], "rargs": ity.get("args", []),
                       "args": [{"k": "move", "place": {"local": r, "proj": []}}], "dest": {"local": x, "proj": []}, "target": SW, "line": line}
        rec["blocks"].append({"stmts": [{"k": "assign", "place": {"local": dx, "proj": []}, "rv": {"k": "discr", "place": {"local": x, "proj": []}}, "line": line}],
                              "term": {"k": "switch", "discr": {"k": "move", "place": {"local": dx, "proj": []}}, "dty": isz, "arms": [[0, NONE], [1, SOME]], "otherwise": UNR, "line": line}})
        rec["blocks"].append({"stmts": [{"k": "assign", "place": copy.deepcopy(t["dest"]),
                                         "rv": {"k": "aggregate", "agg": "adt", "path": "core::option::Option", "variant": 0, "vname": "None", "args": dty.get("args", []), "is_enum": True, "ops": []},
                                         "line": line}], "term": {"k": "goto", "target": t["target"]}})
        some_stmts = [{"k": "assign", "place": {"local": item, "proj": []},
                       "rv": {"k": "use", "op": {"k": "move", "place": {"local": x, "proj": [{"k": "downcast", "variant": 1, "name": "Some"}, {"k": "field", "i": 0, "ty": item_ty}]}}}, "line": line}]
        if kind.endswith(("FilterMap", "::Map")):
            some_stmts.append({"k": "assign", "place": {"local": tup, "proj": []}, "rv": {"k": "aggregate", "agg": "tuple", "ops": [{"k": "move", "place": {"local": item, "proj": []}}]}, "line": line})
        else:
            some_stmts.append({"k": "assign", "place": {"local": iref, "proj": []}, "rv": {"k": "ref", "mut": False, "place": {"local": item, "proj": []}}, "line": line})
            some_stmts.append({"k": "assign", "place": {"local": tup, "proj": []}, "rv": {"k": "aggregate", "agg": "tuple", "ops": [{"k": "move", "place": {"local": iref, "proj": []}}]}, "line": line})
        some_stmts.append({"k": "assign", "place": {"local": cr, "proj": []}, "rv": {"k": "ref", "mut": True, "place": {"local": fl, "proj": []}}, "line": line})
        rec["blocks"].append({"stmts": some_stmts,
                              "term": {"k": "call", "callee": "core::ops::FnMut::call_mut", "resolved": None, "cargs": [fty, {"k": "tuple", "elems": [arg_ty]}], "rargs": [],
                                       "args": [{"k": "move", "place": {"local": cr, "proj": []}}, {"k": "move", "place": {"local": tup, "proj": []}}], "dest": {"local": y, "proj": []},
                                       "target": SW2, "line": line}})
        if kind.endswith("::Map"):
            # Map::next = inner.next().map(f): Some(x) -> Some(f(x)), no retry
            rec["blocks"].append({"stmts": [{"k": "assign", "place": copy.deepcopy(t["dest"]),
                                             "rv": {"k": "aggregate", "agg": "adt", "path": "core::option::Option", "variant": 1, "vname": "Some", "args": dty.get("args", []), "is_enum": True,
                                                    "ops": [{"k": "move", "place": {"local": y, "proj": []}}]}, "line": line}],
                                  "term": {"k": "goto", "target": t["target"]}})
            rec["blocks"].append({"stmts": [], "term": {"k": "unreachable"}})
        elif kind.endswith("FilterMap"):
            rec["blocks"].append({"stmts": [{"k": "assign", "place": {"local": dy, "proj": []}, "rv": {"k": "discr", "place": {"local": y, "proj": []}}, "line": line}],
                                  "term": {"k": "switch", "discr": {"k": "move", "place": {"local": dy, "proj": []}}, "dty": isz, "arms": [[0, bi], [1, HIT]], "otherwise": UNR, "line": line}})
            rec["blocks"].append({"stmts": [{"k": "assign", "place": copy.deepcopy(t["dest"]), "rv": {"k": "use", "op": {"k": "move", "place": {"local": y, "proj": []}}}, "line": line}],
                                  "term": {"k": "goto", "target": t["target"]}})
        else:
            rec["blocks"].append({"stmts": [],
                                  "term": {"k": "switch", "discr": {"k": "move", "place": {"local": y, "proj": []}}, "dty": {"k": "bool"}, "arms": [[0, bi]], "otherwise": HIT, "line": line}})
            rec["blocks"].append({"stmts": [{"k": "assign", "place": copy.deepcopy(t["dest"]),
                                             "rv": {"k": "aggregate", "agg": "adt", "path": "core::option::Option", "variant": 1, "vname": "Some", "args": dty.get("args", []), "is_enum": True,
                                                    "ops": [{"k": "move", "place": {"local": item, "proj": []}}]}, "line": line}],
                                  "term": {"k": "goto", "target": t["target"]}})
        rec["blocks"].append({"stmts": [], "term": {"k": "unreachable"}})
        stats.setdefault(rec["path"], []).append("desugar:" + kind.rsplit("::", 1)[1] + "::next")
        return True
    return False


TAKE_NEXT = "<core::iter::Take<I> as core::iter::Iterator>::next"


def desugar_repeat_with_take(rec, prog, stats):
    """`for v in core::iter::repeat_with(f).take(n)`: Take<RepeatWith<F>>::next is `if remaining == 0 { None } else { remaining -= 1; Some(f()) }`,
    i.e. the loop `for _ in 0..n { let v = f(); .. }`.  The adaptor is replaced by that range and a call of the closure.  Applied when the adaptor value is
    built once from a closure literal and reaches its single `next` call through moves, into_iter and re-borrows only."""
    for bi, blk in enumerate(rec["blocks"]):
        t = blk["term"]
        if t["k"] != "call" or t.get("target") is None or len(t.get("args", [])) != 1 or t["dest"]["proj"]:
            continue
        if (t.get("resolved") or t.get("callee")) != TAKE_NEXT:
            continue
        a = t["args"][0]
        if a["k"] != "move" or a["place"]["proj"]:
            continue
        drop_stmts = []
        cur = a["place"]["local"]
        base = None
        for _ in range(4):
            d = _single_def(rec, cur)
            if d is None or d[0] != "stmt" or d[1] != bi or d[3]["rv"]["k"] != "ref" or _uses_of(rec, cur) != 2:
                break
            pl = d[3]["rv"]["place"]
            drop_stmts.append(d[3])
            if not pl["proj"]:
                base = pl["local"]
                break
            if [x["k"] for x in pl["proj"]] != ["deref"]:
                break
            cur = pl["local"]
        if base is None or rec["locals"][base].get("path") != "core::iter::Take":
            continue
        if _uses_of(rec, base) != 2 + sum(1 for bk in rec["blocks"] if bk["term"]["k"] == "drop" and bk["term"]["place"]["local"] == base and not bk["term"]["place"]["proj"]):
            continue                    # the adaptor is used elsewhere too
        chain = []
        cur = base
        ctor = None
        for _ in range(6):
            d = _single_def(rec, cur)
            if d is None:
                break
            if d[0] == "stmt" and d[3]["rv"]["k"] == "use" and d[3]["rv"]["op"]["k"] == "move" and not d[3]["rv"]["op"]["place"]["proj"]:
                chain.append(d)
                cur = d[3]["rv"]["op"]["place"]["local"]
                continue
            if d[0] == "call":
                cc = d[3].get("resolved") or d[3].get("callee")
                if cc.endswith("::into_iter") and len(d[3]["args"]) == 1 and d[3]["args"][0]["k"] == "move" and not d[3]["args"][0]["place"]["proj"]:
                    chain.append(d)
                    cur = d[3]["args"][0]["place"]["local"]
                    continue
                if cc == "core::iter::Iterator::take" and len(d[3]["args"]) == 2:
                    ctor = d
            break
        if ctor is None:
            continue
        rw_op, n_op = ctor[3]["args"]
        if not (rw_op["k"] == "move" and not rw_op["place"]["proj"]) or n_op["k"] not in ("move", "copy", "const"):
            continue
        rw = rw_op["place"]["local"]
        if rec["locals"][rw].get("path") != "core::iter::RepeatWith":
            continue
        d0 = _single_def(rec, rw)
        if d0 is None or d0[0] != "call" or (d0[3].get("resolved") or d0[3].get("callee")) != "core::iter::repeat_with" or len(d0[3]["args"]) != 1:
            continue
        f_op = d0[3]["args"][0]
        if not (f_op["k"] == "move" and not f_op["place"]["proj"]):
            continue
        fl = f_op["place"]["local"]
        fty = rec["locals"][fl]
        if fty.get("k") != "closure" or fty["path"] not in prog.fns:
            continue
        cl = prog.fns[fty["path"]].rec
        item_ty = cl["locals"][0]
        dty = rec["locals"][t["dest"]["local"]]
        line = t.get("line")
        usz = {"k": "uint", "bits": 64, "name": "usize"}
        isz = {"k": "int", "bits": 64, "name": "isize"}
        rty = {"k": "adt", "path": "core::ops::Range", "args": [usz], "s": "core::ops::Range<usize>"}
        n = len(rec["locals"])
        rec["locals"].extend([rty, rty, {"k": "ref", "mut": True, "to": rty}, {"k": "adt", "path": "core::option::Option", "args": [usz], "s": "core::option::Option<usize>"},
                              isz, {"k": "ref", "mut": True, "to": fty}, {"k": "tuple", "elems": []}, item_ty])
        rng, itl, r, x, dx, cr, tup, y = range(n, n + 8)
        # the constructors: repeat_with disappears, take(n) becomes (0..n).into_iter()
        rec["blocks"][d0[1]]["term"] = {"k": "goto", "target": d0[3]["target"]}
        cb = rec["blocks"][ctor[1]]
        cb["stmts"] = list(cb["stmts"]) + [{"k": "assign", "place": {"local": rng, "proj": []},
                                            "rv": {"k": "aggregate", "agg": "adt", "path": "core::ops::Range", "variant": 0, "vname": "Range", "args": [usz], "is_enum": False,
                                                   "ops": [{"k": "const", "ty": usz, "bits": 0, "val": 0, "size": 8}, n_op]}, "line": line}]
        cb["term"] = {"k": "call", "callee": "core::iter::IntoIterator::into_iter", "resolved": "<I as core::iter::IntoIterator>::into_iter", "cargs": [rty], "rargs": [rty],
                      "args": [{"k": "move", "place": {"local": rng, "proj": []}}], "dest": {"local": itl, "proj": []}, "target": ctor[3]["target"], "line": line}
        for d in chain:
            if d[0] == "stmt":
                rec["blocks"][d[1]]["stmts"] = [z for z in rec["blocks"][d[1]]["stmts"] if z is not d[3]]
            else:
                rec["blocks"][d[1]]["term"] = {"k": "goto", "target": d[3]["target"]}
        # drops of the adaptor value become no-ops
        for bk in rec["blocks"]:
            tt = bk["term"]
            if tt["k"] == "drop" and tt["place"]["local"] in (base, rw) and not tt["place"]["proj"]:
                bk["term"] = {"k": "goto", "target": tt["target"]}
        blk["stmts"] = [z for z in blk["stmts"] if not any(z is w for w in drop_stmts)]
        nb = len(rec["blocks"])
        SW, NONE, SOME, HIT, UNR = nb, nb + 1, nb + 2, nb + 3, nb + 4
        blk["stmts"] = list(blk["stmts"]) + [{"k": "assign", "place": {"local": r, "proj": []}, "rv": {"k": "ref", "mut": True, "place": {"local": itl, "proj": []}}, "line": line}]
        blk["term"] = {"k": "call", "callee": "core::iter::Iterator::next", "resolved": NEXT_RESOLVE["core::ops::Range"], "cargs": [rty], "rargs": [usz],
                       "args": [{"k": "move", "place": {"local": r, "proj": []}}], "dest": {"local": x, "proj": []}, "target": SW, "line": line}
        rec["blocks"].append({"stmts": [{"k": "assign", "place": {"local": dx, "proj": []}, "rv": {"k": "discr", "place": {"local": x, "proj": []}}, "line": line}],
                              "term": {"k": "switch", "discr": {"k": "move", "place": {"local": dx, "proj": []}}, "dty": isz, "arms": [[0, NONE], [1, SOME]], "otherwise": UNR, "line": line}})
        rec["blocks"].append({"stmts": [{"k": "assign", "place": copy.deepcopy(t["dest"]),
                                         "rv": {"k": "aggregate", "agg": "adt", "path": "core::option::Option", "variant": 0, "vname": "None", "args": dty.get("args", []), "is_enum": True, "ops": []},
                                         "line": line}], "term": {"k": "goto", "target": t["target"]}})
        rec["blocks"].append({"stmts": [{"k": "assign", "place": {"local": cr, "proj": []}, "rv": {"k": "ref", "mut": True, "place": {"local": fl, "proj": []}}, "line": line},
                                        {"k": "assign", "place": {"local": tup, "proj": []}, "rv": {"k": "aggregate", "agg": "tuple", "ops": []}, "line": line}],
                              "term": {"k": "call", "callee": "core::ops::FnMut::call_mut", "resolved": None, "cargs": [fty, {"k": "tuple", "elems": []}], "rargs": [],
                                       "args": [{"k": "move", "place": {"local": cr, "proj": []}}, {"k": "move", "place": {"local": tup, "proj": []}}], "dest": {"local": y, "proj": []},
                                       "target": HIT, "line": line}})
        rec["blocks"].append({"stmts": [{"k": "assign", "place": copy.deepcopy(t["dest"]),
                                         "rv": {"k": "aggregate", "agg": "adt", "path": "core::option::Option", "variant": 1, "vname": "Some", "args": dty.get("args", []), "is_enum": True,
                                                "ops": [{"k": "move", "place": {"local": y, "proj": []}}]}, "line": line}],
                              "term": {"k": "goto", "target": t["target"]}})
        rec["blocks"].append({"stmts": [], "term": {"k": "unreachable"}})
        stats.setdefault(rec["path"], []).append("desugar:repeat_with.take::next")
        return True
    return False


ENUM_NEXT = "<core::iter::Enumerate<I> as core::iter::Iterator>::next"


def desugar_enumerate_over_adaptor(rec, prog, stats):
    """`for (k, y) in it.filter(p).enumerate()`: Enumerate::next over a Filter / FilterMap is replaced by its definition with an explicit
    counter -  match inner.next() { None => None, Some(y) => { let k = count; count += 1; Some((k, y)) } }  - and the inner adaptor is then
    expanded by desugar_adaptor_next, which leaves the hand-written loop `for x in it { if p(&x) { .. count .. } }`.  Enumerate over a plain
    slice iterator or range (the shape today's tree and the rules use) is left alone."""
    for bi, blk in enumerate(rec["blocks"]):
        t = blk["term"]
        if t["k"] != "call" or t.get("target") is None or len(t.get("args", [])) != 1 or t["dest"]["proj"]:
            continue
        if (t.get("resolved") or t.get("callee")) != ENUM_NEXT:
            continue
        a = t["args"][0]
        if a["k"] != "move" or a["place"]["proj"]:
            continue
        drop_stmts = []
        cur = a["place"]["local"]
        base = None
        for _ in range(4):
            d = _single_def(rec, cur)
            if d is None or d[0] != "stmt" or d[1] != bi or d[3]["rv"]["k"] != "ref" or _uses_of(rec, cur) != 2:
                break
            pl = d[3]["rv"]["place"]
            drop_stmts.append(d[3])
            if not pl["proj"]:
                base = pl["local"]
                break
            if [x["k"] for x in pl["proj"]] != ["deref"]:
                break
            cur = pl["local"]
        if base is None:
            continue
        ety = rec["locals"][base]
        if ety.get("path") != "core::iter::Enumerate" or not ety.get("args") or ety["args"][0].get("path") not in ADAPTOR_NEXT:
            continue
        inner_ty = ety["args"][0]
        chain = []
        cur = base
        ctor = None
        for _ in range(6):
            d = _single_def(rec, cur)
            if d is None:
                break
            if d[0] == "stmt" and d[3]["rv"]["k"] == "use" and d[3]["rv"]["op"]["k"] == "move" and not d[3]["rv"]["op"]["place"]["proj"]:
                chain.append(d)
                cur = d[3]["rv"]["op"]["place"]["local"]
                continue
            if d[0] == "call":
                cc = d[3].get("resolved") or d[3].get("callee")
                if cc.endswith("::into_iter") and len(d[3]["args"]) == 1 and d[3]["args"][0]["k"] == "move" and not d[3]["args"][0]["place"]["proj"]:
                    chain.append(d)
                    cur = d[3]["args"][0]["place"]["local"]
                    continue
                if (d[3].get("callee") == "core::iter::Iterator::enumerate" or cc == "core::iter::Iterator::enumerate") and len(d[3]["args"]) == 1:
                    ctor = d
            break
        if ctor is None:
            continue
        it_op = ctor[3]["args"][0]
        if not (it_op["k"] == "move" and not it_op["place"]["proj"]):
            continue
        inner = it_op["place"]["local"]
        if rec["locals"][inner] != inner_ty:
            continue
        dty = rec["locals"][t["dest"]["local"]]          # Option<(usize, Item)>
        if not (dty.get("k") == "adt" and dty.get("args") and dty["args"][0].get("k") == "tuple" and len(dty["args"][0]["elems"]) == 2):
            continue
        pair_ty = dty["args"][0]
        item_ty = pair_ty["elems"][1]
        line = t.get("line")
        usz = {"k": "uint", "bits": 64, "name": "usize"}
        isz = {"k": "int", "bits": 64, "name": "isize"}
        n = len(rec["locals"])
        opt_item = {"k": "adt", "path": "core::option::Option", "args": [item_ty], "s": "core::option::Option<Item>"}
        rec["locals"].extend([usz, {"k": "ref", "mut": True, "to": inner_ty}, opt_item, isz, item_ty, pair_ty, usz])
        cnt, r, x, dx, item, pair, kcur = range(n, n + 7)
        # constructor: count = 0; the links become no-ops
        cb = rec["blocks"][ctor[1]]
        cb["stmts"] = list(cb["stmts"]) + [{"k": "assign", "place": {"local": cnt, "proj": []}, "rv": {"k": "use", "op": {"k": "const", "ty": usz, "bits": 0, "val": 0, "size": 8}}, "line": line}]
        cb["term"] = {"k": "goto", "target": ctor[3]["target"]}
        for d in chain:
            if d[0] == "stmt":
                rec["blocks"][d[1]]["stmts"] = [y for y in rec["blocks"][d[1]]["stmts"] if y is not d[3]]
            else:
                rec["blocks"][d[1]]["term"] = {"k": "goto", "target": d[3]["target"]}
        blk["stmts"] = [y for y in blk["stmts"] if not any(y is z for z in drop_stmts)]
        nb = len(rec["blocks"])
        SW, NONE, SOME, UNR = nb, nb + 1, nb + 2, nb + 3
        blk["stmts"] = list(blk["stmts"]) + [{"k": "assign", "place": {"local": r, "proj": []}, "rv": {"k": "ref", "mut": True, "place": {"local": inner, "proj": []}}, "line": line}]
        blk["term"] = {"k": "call", "callee": "core::iter::Iterator::next", "resolved": ADAPTOR_NEXT[inner_ty["path"]][0], "cargs": [inner_ty], "rargs": inner_ty.get("args", []),
                       "args": [{"k": "move", "place": {"local": r, "proj": []}}], "dest": {"local": x, "proj": []}, "target": SW, "line": line}
        rec["blocks"].append({"stmts": [{"k": "assign", "place": {"local": dx, "proj": []}, "rv": {"k": "discr", "place": {"local": x, "proj": []}}, "line": line}],
                              "term": {"k": "switch", "discr": {"k": "move", "place": {"local": dx, "proj": []}}, "dty": isz, "arms": [[0, NONE], [1, SOME]], "otherwise": UNR, "line": line}})
        rec["blocks"].append({"stmts": [{"k": "assign", "place": copy.deepcopy(t["dest"]),
                                         "rv": {"k": "aggregate", "agg": "adt", "path": "core::option::Option", "variant": 0, "vname": "None", "args": dty["args"], "is_enum": True, "ops": []},
                                         "line": line}], "term": {"k": "goto", "target": t["target"]}})
        one = {"k": "const", "ty": usz, "bits": 1, "val": 1, "size": 8}
        tupov = len(rec["locals"])
        rec["locals"].append({"k": "tuple", "elems": [usz, BOOL]})
        # (core's Enumerate::next carries #[rustc_inherit_overflow_checks]: `count += 1` is a checked addition in a build with overflow checks)
        rec["blocks"].append({"stmts": [
            {"k": "assign", "place": {"local": item, "proj": []},
             "rv": {"k": "use", "op": {"k": "move", "place": {"local": x, "proj": [{"k": "downcast", "variant": 1, "name": "Some"}, {"k": "field", "i": 0, "ty": item_ty}]}}}, "line": line},
            {"k": "assign", "place": {"local": kcur, "proj": []}, "rv": {"k": "use", "op": {"k": "copy", "place": {"local": cnt, "proj": []}}}, "line": line},
            {"k": "assign", "place": {"local": tupov, "proj": []}, "rv": {"k": "binop", "op": "AddWithOverflow", "a": {"k": "copy", "place": {"local": cnt, "proj": []}}, "b": copy.deepcopy(one)}, "line": line}],
            "term": {"k": "assert", "cond": {"k": "move", "place": {"local": tupov, "proj": [{"k": "field", "i": 1, "ty": BOOL}]}}, "expected": False, "kind": "Overflow:Add",
                     "ops": [{"k": "copy", "place": {"local": cnt, "proj": []}}, copy.deepcopy(one)], "target": UNR + 1, "line": line, "exp": True}})
        rec["blocks"].append({"stmts": [], "term": {"k": "unreachable"}})
        rec["blocks"].append({"stmts": [
            {"k": "assign", "place": {"local": cnt, "proj": []}, "rv": {"k": "use", "op": {"k": "move", "place": {"local": tupov, "proj": [{"k": "field", "i": 0, "ty": usz}]}}}, "line": line},
            {"k": "assign", "place": {"local": pair, "proj": []}, "rv": {"k": "aggregate", "agg": "tuple", "ops": [{"k": "copy", "place": {"local": kcur, "proj": []}},
                                                                                                                {"k": "move", "place": {"local": item, "proj": []}}]}, "line": line},
            {"k": "assign", "place": copy.deepcopy(t["dest"]),
             "rv": {"k": "aggregate", "agg": "adt", "path": "core::option::Option", "variant": 1, "vname": "Some", "args": dty["args"], "is_enum": True,
                    "ops": [{"k": "move", "place": {"local": pair, "proj": []}}]}, "line": line}],
            "term": {"k": "goto", "target": t["target"]}})
        rec.setdefault("_expand_filter", set()).add(inner)
        stats.setdefault(rec["path"], []).append("desugar:Enumerate<adaptor>::next")
        return True
    return False


def _const_elems(rec, prog, local, visited=None):
    """elements of a literal array reached through re-borrows / unsizing from a promoted constant (`&[0xd3]`), as const operands; else None"""
    cur = local
    for _ in range(6):
        d = _single_def(rec, cur)
        if d is None or d[0] != "stmt":
            return None
        if visited is not None:
            visited.append(d)
        rv = d[3]["rv"]
        if rv["k"] == "ref" and [x["k"] for x in rv["place"]["proj"]] in ([], ["deref"]):
            cur = rv["place"]["local"]
            continue
        if rv["k"] == "cast" and str(rv.get("kind", "")).startswith("PointerCoercion") and rv["op"]["k"] in ("move", "copy") and not rv["op"]["place"]["proj"]:
            cur = rv["op"]["place"]["local"]
            continue
        if rv["k"] == "use" and rv["op"]["k"] in ("move", "copy") and not rv["op"]["place"]["proj"]:
            cur = rv["op"]["place"]["local"]
            continue
        if rv["k"] == "use" and rv["op"]["k"] == "const" and rv["op"].get("ck") == "promoted":
            pr = prog.promoted.get(rv["op"].get("s"))
            prec = pr if isinstance(pr, dict) else getattr(pr, "rec", None)
            if not prec or len(prec["blocks"]) != 1:
                return None
            arrs = [st for st in prec["blocks"][0]["stmts"] if st["k"] == "assign" and st["rv"]["k"] == "aggregate" and st["rv"].get("agg") == "array"]
            if len(arrs) != 1 or not all(o["k"] == "const" and "val" in o for o in arrs[0]["rv"]["ops"]):
                return None
            return [copy.deepcopy(o) for o in arrs[0]["rv"]["ops"]]
        return None
    return None


def desugar(rec, prog, stats):
    """(1) (lo..=hi).contains(&x) / (lo..hi).contains(&x) with constant bounds  ->  (lo <= x) & (x <= hi | x < hi)
       (2) opt.ok_or(e)?   ->   match opt { Some(v) => v, None => return Err(e) }     (same error type only)"""
    changed = False
    for bi, blk in enumerate(rec["blocks"]):
        t = blk["term"]
        if t["k"] != "call" or t.get("target") is None:
            continue
        c = t.get("resolved") or t.get("callee")
        if c == "core::cmp::PartialEq::ne" and len(t["args"]) == 2 and not t["dest"]["proj"] and len(t.get("cargs") or []) == 2 \
                and t["cargs"][0].get("k") == "adt" and t["cargs"][0] == t["cargs"][1] \
                and ("<%s as core::cmp::PartialEq>::eq" % t["cargs"][0].get("path")) in prog.fns:
            # a != b on a crate type with its own `eq` (derived or written): the trait's default `ne` is `!a.eq(b)`
            eqfn = "<%s as core::cmp::PartialEq>::eq" % t["cargs"][0]["path"]
            line = t.get("line")
            n = len(rec["locals"])
            rec["locals"].append({"k": "bool"})
            nb = len(rec["blocks"])
            rec["blocks"].append({"stmts": [{"k": "assign", "place": copy.deepcopy(t["dest"]),
                                             "rv": {"k": "unop", "op": "Not", "a": {"k": "move", "place": {"local": n, "proj": []}}}, "line": line}],
                                  "term": {"k": "goto", "target": t["target"]}})
            t2 = copy.deepcopy(t)
            t2["callee"] = "core::cmp::PartialEq::eq"
            t2["resolved"] = eqfn
            t2["dest"] = {"local": n, "proj": []}
            t2["target"] = nb
            t2.pop("fnop", None)
            blk["term"] = t2
            stats.setdefault(rec["path"], []).append("desugar:ne")
            changed = True
            continue
        if (c or "").endswith("Iterator::collect") and len(t["args"]) == 1 and t["args"][0]["k"] == "move" and not t["args"][0]["place"]["proj"] and not t["dest"]["proj"]:
            # it.map(f).collect::<Result<(), E>>()  ==  it.try_for_each(f): FromIterator for Result<(), E> pulls items until the first Err and
            # returns it, Ok(()) otherwise (the unit collection keeps nothing)
            dty_ = rec["locals"][t["dest"]["local"]]
            xl_ = t["args"][0]["place"]["local"]
            dm_ = _single_def(rec, xl_)
            if dty_.get("k") == "adt" and dty_.get("path") == "core::result::Result" and (dty_.get("args") or [{}])[0].get("k") == "tuple" \
                    and not (dty_["args"][0].get("elems")) and dm_ is not None and dm_[0] == "call" and _uses_of(rec, xl_) == 2 \
                    and (dm_[3].get("resolved") or dm_[3].get("callee")) == "core::iter::Iterator::map" and len(dm_[3]["args"]) == 2:
                mt_ = dm_[3]
                mca_ = mt_.get("cargs") or []
                if len(mca_) >= 3 or len(mca_) == 2 or True:
                    ity_ = mca_[0] if mca_ else rec["locals"][mt_["args"][0]["place"]["local"]] if mt_["args"][0]["k"] in ("move", "copy") else {"k": "other"}
                    fty_ = rec["locals"][mt_["args"][1]["place"]["local"]] if mt_["args"][1]["k"] in ("move", "copy") and not mt_["args"][1]["place"]["proj"] else {"k": "other"}
                    rec["blocks"][dm_[1]]["term"] = {"k": "goto", "target": mt_["target"]}
                    blk["term"] = {"k": "call", "callee": "core::iter::Iterator::try_for_each", "resolved": "core::iter::Iterator::try_for_each", "cargs": [ity_, fty_, dty_],
                                   "rargs": [ity_, fty_, dty_], "args": [copy.deepcopy(mt_["args"][0]), copy.deepcopy(mt_["args"][1])], "dest": copy.deepcopy(t["dest"]),
                                   "target": t["target"], "line": t.get("line")}
                    stats.setdefault(rec["path"], []).append("desugar:map.collect<Result<(),E>>")
                    changed = True
                    continue
        if c in CONTAINS and len(t["args"]) == 2 and t["args"][1]["k"] in ("move", "copy") and not t["args"][1]["place"]["proj"]:
            b = _range_bounds(rec, prog, t["args"][0])
            if b is None:
                continue
            lo, hi = b
            x = {"k": "copy", "place": {"local": t["args"][1]["place"]["local"], "proj": [{"k": "deref"}]}}
            n = len(rec["locals"])
            rec["locals"].extend([BOOL, BOOL])
            line = t.get("line")
            blk["stmts"] = list(blk["stmts"]) + [
                {"k": "assign", "place": {"local": n, "proj": []}, "rv": {"k": "binop", "op": "Le", "a": copy.deepcopy(lo), "b": x}, "line": line},
                {"k": "assign", "place": {"local": n + 1, "proj": []}, "rv": {"k": "binop", "op": CONTAINS[c], "a": copy.deepcopy(x), "b": copy.deepcopy(hi)}, "line": line},
                {"k": "assign", "place": copy.deepcopy(t["dest"]), "rv": {"k": "binop", "op": "BitAnd", "a": {"k": "move", "place": {"local": n, "proj": []}},
                                                                            "b": {"k": "move", "place": {"local": n + 1, "proj": []}}}, "line": line},
            ]
            blk["term"] = {"k": "goto", "target": t["target"]}
            stats.setdefault(rec["path"], []).append("desugar:" + c.rsplit("::", 1)[1])
            changed = True
            continue
        if c in ("core::cmp::Ordering::then_with", "core::cmp::Ordering::then") and len(t["args"]) == 2 and t["args"][0]["k"] in ("move", "copy") \
                and not t["args"][0]["place"]["proj"]:
            # a.then_with(f)  ->  match a { Equal => f(), o => o }        a.then(b) -> match a { Equal => b, o => o }
            o = t["args"][0]
            ol = o["place"]["local"]
            n = len(rec["locals"])
            rec["locals"].append({"k": "int", "bits": 64, "name": "isize"})
            nb = len(rec["blocks"])
            line = t.get("line")
            # not-equal: the result is a itself
            rec["blocks"].append({"stmts": [{"k": "assign", "place": copy.deepcopy(t["dest"]), "rv": {"k": "use", "op": {"k": "copy", "place": {"local": ol, "proj": []}}}, "line": line}],
                                  "term": {"k": "goto", "target": t["target"]}})
            if c.endswith("then_with"):
                f_ = t["args"][1]
                fty = rec["locals"][f_["place"]["local"]] if f_["k"] in ("move", "copy") and not f_["place"]["proj"] else None
                if not fty or fty.get("k") != "closure":
                    rec["blocks"].pop()
                    rec["locals"].pop()
                    continue
                unit = len(rec["locals"])
                rec["locals"].append({"k": "tuple", "elems": []})
                rec["blocks"].append({"stmts": [{"k": "assign", "place": {"local": unit, "proj": []}, "rv": {"k": "aggregate", "agg": "tuple", "ops": []}, "line": line}],
                                      "term": {"k": "call", "callee": "core::ops::FnOnce::call_once", "resolved": None, "cargs": [fty, {"k": "tuple", "elems": []}], "rargs": [],
                                               "args": [copy.deepcopy(f_), {"k": "move", "place": {"local": unit, "proj": []}}], "dest": copy.deepcopy(t["dest"]),
                                               "target": t["target"], "line": line}})
            else:
                rec["blocks"].append({"stmts": [{"k": "assign", "place": copy.deepcopy(t["dest"]), "rv": {"k": "use", "op": copy.deepcopy(t["args"][1])}, "line": line}],
                                      "term": {"k": "goto", "target": t["target"]}})
            rec["blocks"].append({"stmts": [], "term": {"k": "unreachable"}})
            blk["stmts"] = list(blk["stmts"]) + [{"k": "assign", "place": {"local": n, "proj": []}, "rv": {"k": "discr", "place": {"local": ol, "proj": []}}, "line": line}]
            blk["term"] = {"k": "switch", "discr": {"k": "move", "place": {"local": n, "proj": []}}, "dty": {"k": "int", "bits": 64, "name": "isize"},
                           "arms": [[0, nb + 1]], "otherwise": nb, "line": line}
            stats.setdefault(rec["path"], []).append("desugar:" + c.rsplit("::", 1)[1])
            changed = True
            continue
        if c in ("core::result::Result::<T, E>::map", "core::result::Result::<T, E>::map_err", "core::option::Option::<T>::map") and len(t["args"]) == 2 \
                and t["args"][0]["k"] in ("move", "copy") and not t["args"][0]["place"]["proj"] and not t["dest"]["proj"]:
            # r.map(f) / r.map_err(f) / o.map(f)  ->  explicit match with a call of f on the payload
            r = t["args"][0]
            rl = r["place"]["local"]
            rty = rec["locals"][rl]
            dty = rec["locals"][t["dest"]["local"]]
            f_ = t["args"][1]
            is_opt = c.startswith("core::option")
            on_err = c.endswith("map_err")
            if not (rty.get("k") == "adt" and dty.get("k") == "adt" and rty.get("args") and dty.get("args")):
                continue
            # variant layout: Option: None=0, Some=1 ; Result: Ok=0, Err=1
            hit = (1, "Some") if is_opt else ((1, "Err") if on_err else (0, "Ok"))
            oth = (0, "None") if is_opt else ((0, "Ok") if on_err else (1, "Err"))
            pay_in = rty["args"][0] if (is_opt or not on_err) else rty["args"][1]
            pay_out = dty["args"][0] if (is_opt or not on_err) else dty["args"][1]
            apath = "core::option::Option" if is_opt else "core::result::Result"
            line = t.get("line")
            n = len(rec["locals"])
            rec["locals"].extend([{"k": "int", "bits": 64, "name": "isize"}, pay_in, pay_out])
            dsc, pin, pout = n, n + 1, n + 2
            nb = len(rec["blocks"])
            # block nb: payload extracted, call f
            pre = [{"k": "assign", "place": {"local": pin, "proj": []},
                    "rv": {"k": "use", "op": {"k": "move", "place": {"local": rl, "proj": [{"k": "downcast", "variant": hit[0], "name": hit[1]}, {"k": "field", "i": 0, "ty": pay_in}]}}}, "line": line}]
            if f_["k"] == "const" and f_.get("ty", {}).get("k") == "fndef" and _variant_ctor(prog, f_["ty"]) is not None:
                # r.map(Enum::Variant): the mapped function is a tuple-variant constructor - an aggregate, not a call
                apath_, vi_, vname_, aargs_ = _variant_ctor(prog, f_["ty"])
                pre.append({"k": "assign", "place": {"local": pout, "proj": []},
                            "rv": {"k": "aggregate", "agg": "adt", "path": apath_, "variant": vi_, "vname": vname_, "args": aargs_, "is_enum": True,
                                   "ops": [{"k": "move", "place": {"local": pin, "proj": []}}]}, "line": line})
                callt = {"k": "goto", "target": nb + 1}
            elif f_["k"] == "const" and f_.get("ty", {}).get("k") == "fndef":
                fpath = resolve_fn_item(prog, f_["ty"])
                callt = {"k": "call", "callee": f_["ty"]["path"], "resolved": fpath, "cargs": f_["ty"].get("args", []), "rargs": f_["ty"].get("args", []),
                         "args": [{"k": "move", "place": {"local": pin, "proj": []}}], "dest": {"local": pout, "proj": []}, "target": nb + 1, "line": line}
            elif f_["k"] in ("move", "copy") and not f_["place"]["proj"] and rec["locals"][f_["place"]["local"]].get("k") == "closure":
                tup = len(rec["locals"])
                rec["locals"].append({"k": "tuple", "elems": [pay_in]})
                pre.append({"k": "assign", "place": {"local": tup, "proj": []}, "rv": {"k": "aggregate", "agg": "tuple", "ops": [{"k": "move", "place": {"local": pin, "proj": []}}]}, "line": line})
                callt = {"k": "call", "callee": "core::ops::FnOnce::call_once", "resolved": None, "cargs": [rec["locals"][f_["place"]["local"]], {"k": "tuple", "elems": [pay_in]}], "rargs": [],
                         "args": [copy.deepcopy(f_), {"k": "move", "place": {"local": tup, "proj": []}}], "dest": {"local": pout, "proj": []}, "target": nb + 1, "line": line}
            else:
                del rec["locals"][n:]
                continue
            rec["blocks"].append({"stmts": pre, "term": callt})
            # block nb+1: wrap the result
            rec["blocks"].append({"stmts": [{"k": "assign", "place": copy.deepcopy(t["dest"]),
                                             "rv": {"k": "aggregate", "agg": "adt", "path": apath, "variant": hit[0], "vname": hit[1], "args": dty["args"], "is_enum": True,
                                                    "ops": [{"k": "move", "place": {"local": pout, "proj": []}}]}, "line": line}],
                                  "term": {"k": "goto", "target": t["target"]}})
            # block nb+2: the other variant passes through
            ops = [] if is_opt else [{"k": "move", "place": {"local": rl, "proj": [{"k": "downcast", "variant": oth[0], "name": oth[1]},
                                                                               {"k": "field", "i": 0, "ty": rty["args"][1] if not on_err else rty["args"][0]}]}}]
            rec["blocks"].append({"stmts": [{"k": "assign", "place": copy.deepcopy(t["dest"]),
                                             "rv": {"k": "aggregate", "agg": "adt", "path": apath, "variant": oth[0], "vname": oth[1], "args": dty["args"], "is_enum": True, "ops": ops},
                                             "line": line}],
                                  "term": {"k": "goto", "target": t["target"]}})
            rec["blocks"].append({"stmts": [], "term": {"k": "unreachable"}})
            blk["stmts"] = list(blk["stmts"]) + [{"k": "assign", "place": {"local": dsc, "proj": []}, "rv": {"k": "discr", "place": {"local": rl, "proj": []}}, "line": line}]
            blk["term"] = {"k": "switch", "discr": {"k": "move", "place": {"local": dsc, "proj": []}}, "dty": {"k": "int", "bits": 64, "name": "isize"},
                           "arms": [[hit[0], nb], [oth[0], nb + 2]], "otherwise": nb + 3, "line": line}
            stats.setdefault(rec["path"], []).append("desugar:" + c.rsplit("::", 1)[1])
            changed = True
            continue
        mf_ = re.fullmatch(r"core::convert::num::<impl core::convert::From<(u8|u16|u32|i8|i16|i32)> for (f32|f64)>::from", c or "")
        if mf_ and len(t["args"]) == 1 and not t["dest"]["proj"]:
            # f32::from(i16) etc. (lossless): the cast `x as f32`
            blk["stmts"] = list(blk["stmts"]) + [{"k": "assign", "place": copy.deepcopy(t["dest"]),
                                                  "rv": {"k": "cast", "kind": "IntToFloat", "op": copy.deepcopy(t["args"][0]), "ty": rec["locals"][t["dest"]["local"]]}, "line": t.get("line")}]
            blk["term"] = {"k": "goto", "target": t["target"]}
            stats.setdefault(rec["path"], []).append("desugar:From-int-to-float")
            changed = True
            continue
        mt_ = re.fullmatch(r"core::convert::num::(?:ptr_try_from_impls::)?<impl core::convert::TryFrom<(u16|u32|u64|usize)> for (u8|u16|u32)>::try_from", c or "")
        if mt_ and len(t["args"]) == 1 and not t["dest"]["proj"]:
            # uN::try_from(x) for an unsigned narrowing  ->  if x <= uN::MAX { Ok(x as uN) } else { Err(TryFromIntError) }
            dty = rec["locals"][t["dest"]["local"]]
            if dty.get("k") == "adt" and len(dty.get("args") or []) == 2:
                bits = {"u8": 8, "u16": 16, "u32": 32}[mt_.group(2)]
                srcty = {"k": "uint", "bits": 64 if mt_.group(1) in ("u64", "usize") else int(mt_.group(1)[1:]), "name": mt_.group(1)}
                line = t.get("line")
                n = len(rec["locals"])
                rec["locals"].extend([BOOL, dty["args"][0], dty["args"][1]])
                nb = len(rec["blocks"])
                blk["stmts"] = list(blk["stmts"]) + [{"k": "assign", "place": {"local": n, "proj": []},
                                                      "rv": {"k": "binop", "op": "Le", "a": copy.deepcopy(t["args"][0]),
                                                             "b": {"k": "const", "ty": srcty, "bits": (1 << bits) - 1, "val": (1 << bits) - 1, "size": srcty["bits"] // 8}}, "line": line}]
                blk["term"] = {"k": "switch", "discr": {"k": "move", "place": {"local": n, "proj": []}}, "dty": BOOL, "arms": [[0, nb + 1]], "otherwise": nb, "line": line}
                rec["blocks"].append({"stmts": [
                    {"k": "assign", "place": {"local": n + 1, "proj": []}, "rv": {"k": "cast", "kind": "IntToInt", "op": copy.deepcopy(t["args"][0]), "ty": dty["args"][0]}, "line": line},
                    {"k": "assign", "place": copy.deepcopy(t["dest"]),
                     "rv": {"k": "aggregate", "agg": "adt", "path": "core::result::Result", "variant": 0, "vname": "Ok", "args": dty["args"], "is_enum": True,
                            "ops": [{"k": "move", "place": {"local": n + 1, "proj": []}}]}, "line": line}], "term": {"k": "goto", "target": t["target"]}})
                rec["blocks"].append({"stmts": [
                    {"k": "assign", "place": {"local": n + 2, "proj": []}, "rv": {"k": "aggregate", "agg": "adt", "path": "core::num::TryFromIntError", "variant": 0, "vname": "TryFromIntError",
                                                                                 "args": [], "is_enum": False, "ops": [{"k": "const", "ty": {"k": "tuple", "elems": []}}]}, "line": line},
                    {"k": "assign", "place": copy.deepcopy(t["dest"]),
                     "rv": {"k": "aggregate", "agg": "adt", "path": "core::result::Result", "variant": 1, "vname": "Err", "args": dty["args"], "is_enum": True,
                            "ops": [{"k": "move", "place": {"local": n + 2, "proj": []}}]}, "line": line}], "term": {"k": "goto", "target": t["target"]}})
                stats.setdefault(rec["path"], []).append("desugar:try_from")
                changed = True
                continue
        ms_ = re.fullmatch(r"core::num::<impl (u8|u16|u32|u64|usize)>::checked_shl", c or "")
        if ms_ and len(t["args"]) == 2 and not t["dest"]["proj"]:
            # x.checked_shl(k)  ->  if k < BITS { Some(x << k) } else { None }
            dty = rec["locals"][t["dest"]["local"]]
            if dty.get("k") == "adt" and dty.get("args"):
                bits = 64 if ms_.group(1) in ("u64", "usize") else int(ms_.group(1)[1:])
                u32 = {"k": "uint", "bits": 32, "name": "u32"}
                line = t.get("line")
                n = len(rec["locals"])
                rec["locals"].extend([BOOL, dty["args"][0]])
                nb = len(rec["blocks"])
                blk["stmts"] = list(blk["stmts"]) + [{"k": "assign", "place": {"local": n, "proj": []},
                                                      "rv": {"k": "binop", "op": "Lt", "a": copy.deepcopy(t["args"][1]), "b": {"k": "const", "ty": u32, "bits": bits, "val": bits, "size": 4}}, "line": line}]
                blk["term"] = {"k": "switch", "discr": {"k": "move", "place": {"local": n, "proj": []}}, "dty": BOOL, "arms": [[0, nb + 1]], "otherwise": nb, "line": line}
                rec["blocks"].append({"stmts": [
                    {"k": "assign", "place": {"local": n + 1, "proj": []}, "rv": {"k": "binop", "op": "Shl", "a": copy.deepcopy(t["args"][0]), "b": copy.deepcopy(t["args"][1])}, "line": line},
                    {"k": "assign", "place": copy.deepcopy(t["dest"]),
                     "rv": {"k": "aggregate", "agg": "adt", "path": "core::option::Option", "variant": 1, "vname": "Some", "args": dty["args"], "is_enum": True,
                            "ops": [{"k": "move", "place": {"local": n + 1, "proj": []}}]}, "line": line}], "term": {"k": "goto", "target": t["target"]}})
                rec["blocks"].append({"stmts": [
                    {"k": "assign", "place": copy.deepcopy(t["dest"]),
                     "rv": {"k": "aggregate", "agg": "adt", "path": "core::option::Option", "variant": 0, "vname": "None", "args": dty["args"], "is_enum": True, "ops": []}, "line": line}],
                    "term": {"k": "goto", "target": t["target"]}})
                stats.setdefault(rec["path"], []).append("desugar:checked_shl")
                changed = True
                continue
        m_ = re.fullmatch(r"core::convert::num::<impl core::convert::From<(u8|u16|u32|i8|i16|i32|bool|char)> for (u16|u32|u64|u128|usize|i16|i32|i64|i128|isize)>::from", c or "")
        if m_ and len(t["args"]) == 1 and not t["dest"]["proj"]:
            # uN::from(x) for a lossless widening: the cast `x as uN`
            blk["stmts"] = list(blk["stmts"]) + [{"k": "assign", "place": copy.deepcopy(t["dest"]),
                                                  "rv": {"k": "cast", "kind": "IntToInt", "op": copy.deepcopy(t["args"][0]), "ty": rec["locals"][t["dest"]["local"]]}, "line": t.get("line")}]
            blk["term"] = {"k": "goto", "target": t["target"]}
            stats.setdefault(rec["path"], []).append("desugar:From-widening")
            changed = True
            continue
        if re.fullmatch(r"core::num::<impl (usize|u8|u16|u32|u64)>::checked_sub", c or "") and len(t["args"]) == 2 and not t["dest"]["proj"]:
            # a.checked_sub(b)  ->  if a >= b { Some(a - b) } else { None }        (the subtraction cannot wrap under the test)
            a_, b_ = t["args"]
            dty = rec["locals"][t["dest"]["local"]]
            if dty.get("k") == "adt" and dty.get("args"):
                line = t.get("line")
                n = len(rec["locals"])
                rec["locals"].extend([BOOL, dty["args"][0]])
                nb = len(rec["blocks"])
                blk["stmts"] = list(blk["stmts"]) + [{"k": "assign", "place": {"local": n, "proj": []}, "rv": {"k": "binop", "op": "Ge", "a": copy.deepcopy(a_), "b": copy.deepcopy(b_)}, "line": line}]
                blk["term"] = {"k": "switch", "discr": {"k": "move", "place": {"local": n, "proj": []}}, "dty": BOOL, "arms": [[0, nb + 1]], "otherwise": nb, "line": line}
                rec["blocks"].append({"stmts": [
                    {"k": "assign", "place": {"local": n + 1, "proj": []}, "rv": {"k": "binop", "op": "Sub", "a": copy.deepcopy(a_), "b": copy.deepcopy(b_)}, "line": line},
                    {"k": "assign", "place": copy.deepcopy(t["dest"]),
                     "rv": {"k": "aggregate", "agg": "adt", "path": "core::option::Option", "variant": 1, "vname": "Some", "args": dty["args"], "is_enum": True,
                            "ops": [{"k": "move", "place": {"local": n + 1, "proj": []}}]}, "line": line}], "term": {"k": "goto", "target": t["target"]}})
                rec["blocks"].append({"stmts": [
                    {"k": "assign", "place": copy.deepcopy(t["dest"]),
                     "rv": {"k": "aggregate", "agg": "adt", "path": "core::option::Option", "variant": 0, "vname": "None", "args": dty["args"], "is_enum": True, "ops": []}, "line": line}],
                    "term": {"k": "goto", "target": t["target"]}})
                stats.setdefault(rec["path"], []).append("desugar:checked_sub")
                changed = True
                continue
        if c == "core::slice::<impl [T]>::starts_with" and len(t["args"]) == 2 and not t["dest"]["proj"] and all(a_["k"] in ("move", "copy") and not a_["place"]["proj"] for a_ in t["args"]):
            # s.starts_with(&[c0]) with a literal one-element needle  ->  if s.len() >= 1 { s[0] == c0 } else { false }
            chain_ = []
            needle = _const_elems(rec, prog, t["args"][1]["place"]["local"], chain_)
            sl = t["args"][0]["place"]["local"]
            sty = rec["locals"][sl]
            if needle is not None and len(needle) == 1 and sty.get("k") == "ref" and sty.get("to", {}).get("k") == "slice":
                line = t.get("line")
                n = len(rec["locals"])
                usz = {"k": "uint", "bits": 64, "name": "usize"}
                rec["locals"].extend([usz, BOOL, sty["to"]["elem"]])
                nb = len(rec["blocks"])
                blk["stmts"] = list(blk["stmts"]) + [
                    {"k": "assign", "place": {"local": n, "proj": []}, "rv": {"k": "unop", "op": "PtrMetadata", "a": {"k": "copy", "place": {"local": sl, "proj": []}}}, "line": line},
                    {"k": "assign", "place": {"local": n + 1, "proj": []}, "rv": {"k": "binop", "op": "Ge", "a": {"k": "move", "place": {"local": n, "proj": []}},
                                                                                 "b": {"k": "const", "ty": usz, "bits": 1, "val": 1, "size": 8}}, "line": line}]
                blk["term"] = {"k": "switch", "discr": {"k": "move", "place": {"local": n + 1, "proj": []}}, "dty": BOOL, "arms": [[0, nb + 1]], "otherwise": nb, "line": line}
                rec["blocks"].append({"stmts": [
                    {"k": "assign", "place": {"local": n + 2, "proj": []},
                     "rv": {"k": "use", "op": {"k": "copy", "place": {"local": sl, "proj": [{"k": "deref"}, {"k": "constindex", "offset": 0, "min_length": 1, "from_end": False, "ty": sty["to"]["elem"]}]}}}, "line": line},
                    {"k": "assign", "place": copy.deepcopy(t["dest"]), "rv": {"k": "binop", "op": "Eq", "a": {"k": "move", "place": {"local": n + 2, "proj": []}}, "b": copy.deepcopy(needle[0])}, "line": line}],
                    "term": {"k": "goto", "target": t["target"]}})
                rec["blocks"].append({"stmts": [{"k": "assign", "place": copy.deepcopy(t["dest"]), "rv": {"k": "use", "op": {"k": "const", "ty": BOOL, "bits": 0, "val": 0, "size": 1}}, "line": line}],
                                      "term": {"k": "goto", "target": t["target"]}})
                # the needle's construction (promoted constant, re-borrows, unsizing) fed only this call
                if all(_uses_of(rec, d_[3]["place"]["local"]) <= 2 for d_ in chain_):
                    for d_ in chain_:
                        rec["blocks"][d_[1]]["stmts"] = [x_ for x_ in rec["blocks"][d_[1]]["stmts"] if x_ is not d_[3]]
                stats.setdefault(rec["path"], []).append("desugar:starts_with")
                changed = True
                continue
        if c == "core::slice::<impl [T]>::get" and len(t["args"]) == 2 and not t["dest"]["proj"] and len(t.get("cargs") or []) == 2 \
                and t["cargs"][1].get("k") == "adt" and t["cargs"][1].get("path") in ("core::ops::RangeTo", "core::ops::RangeFrom") \
                and all(a_["k"] in ("move", "copy") and not a_["place"]["proj"] for a_ in t["args"]):
            # s.get(..n) / s.get(n..)  ->  if n <= s.len() { Some(&s[..n]) } else { None }      (the index cannot fail under the test)
            sl, rg = t["args"][0]["place"]["local"], t["args"][1]["place"]["local"]
            sty = rec["locals"][sl]
            dty = rec["locals"][t["dest"]["local"]]
            if sty.get("k") == "ref" and sty.get("to", {}).get("k") == "slice" and dty.get("k") == "adt" and dty.get("args"):
                line = t.get("line")
                usz = {"k": "uint", "bits": 64, "name": "usize"}
                n = len(rec["locals"])
                rec["locals"].extend([usz, usz, BOOL, dty["args"][0]])
                nb = len(rec["blocks"])
                fld = "end" if t["cargs"][1]["path"].endswith("RangeTo") else "start"
                blk["stmts"] = list(blk["stmts"]) + [
                    {"k": "assign", "place": {"local": n, "proj": []}, "rv": {"k": "use", "op": {"k": "copy", "place": {"local": rg, "proj": [{"k": "field", "i": 0, "ty": usz}]}}}, "line": line},
                    {"k": "assign", "place": {"local": n + 1, "proj": []}, "rv": {"k": "unop", "op": "PtrMetadata", "a": {"k": "copy", "place": {"local": sl, "proj": []}}}, "line": line},
                    {"k": "assign", "place": {"local": n + 2, "proj": []}, "rv": {"k": "binop", "op": "Le", "a": {"k": "move", "place": {"local": n, "proj": []}},
                                                                                 "b": {"k": "move", "place": {"local": n + 1, "proj": []}}}, "line": line}]
                blk["term"] = {"k": "switch", "discr": {"k": "move", "place": {"local": n + 2, "proj": []}}, "dty": BOOL, "arms": [[0, nb + 2]], "otherwise": nb, "line": line}
                rec["blocks"].append({"stmts": [], "term": {"k": "call", "callee": "core::ops::Index::index", "resolved": "core::slice::index::<impl core::ops::Index<I> for [T]>::index",
                                                            "cargs": [sty["to"], t["cargs"][1]], "rargs": [sty["to"].get("elem"), t["cargs"][1]], "rkind": "item",
                                                            "args": [copy.deepcopy(t["args"][0]), copy.deepcopy(t["args"][1])], "dest": {"local": n + 3, "proj": []},
                                                            "target": nb + 1, "line": line}})
                rec["blocks"].append({"stmts": [{"k": "assign", "place": copy.deepcopy(t["dest"]),
                                                 "rv": {"k": "aggregate", "agg": "adt", "path": "core::option::Option", "variant": 1, "vname": "Some", "args": dty["args"], "is_enum": True,
                                                        "ops": [{"k": "move", "place": {"local": n + 3, "proj": []}}]}, "line": line}], "term": {"k": "goto", "target": t["target"]}})
                rec["blocks"].append({"stmts": [{"k": "assign", "place": copy.deepcopy(t["dest"]),
                                                 "rv": {"k": "aggregate", "agg": "adt", "path": "core::option::Option", "variant": 0, "vname": "None", "args": dty["args"], "is_enum": True, "ops": []},
                                                 "line": line}], "term": {"k": "goto", "target": t["target"]}})
                stats.setdefault(rec["path"], []).append("desugar:slice::get(range)")
                changed = True
                continue
        if c == "core::mem::replace" and len(t["args"]) == 2 and not t["dest"]["proj"] and t["args"][0]["k"] in ("move", "copy") \
                and not t["args"][0]["place"]["proj"]:
            # old = mem::replace(&mut place, v)  ->  old = *r; *r = v       (scalars only: a plain load and store)
            rl = t["args"][0]["place"]["local"]
            rty = rec["locals"][rl]
            if rty.get("k") == "ref" and rty.get("to", {}).get("k") in ("bool", "uint", "int", "char", "float"):
                line = t.get("line")
                tgt = {"local": rl, "proj": [{"k": "deref"}]}
                d = _single_def(rec, rl)
                if d is not None and d[0] == "stmt" and d[1] == bi and d[3]["rv"]["k"] == "ref" and _uses_of(rec, rl) == 2:
                    # the borrow was made for this call only: address the place itself
                    tgt = copy.deepcopy(d[3]["rv"]["place"])
                    blk["stmts"] = [x for x in blk["stmts"] if x is not d[3]]
                blk["stmts"] = list(blk["stmts"]) + [
                    {"k": "assign", "place": copy.deepcopy(t["dest"]), "rv": {"k": "use", "op": {"k": "copy", "place": copy.deepcopy(tgt)}}, "line": line},
                    {"k": "assign", "place": copy.deepcopy(tgt), "rv": {"k": "use", "op": copy.deepcopy(t["args"][1])}, "line": line}]
                blk["term"] = {"k": "goto", "target": t["target"]}
                stats.setdefault(rec["path"], []).append("desugar:mem::replace")
                changed = True
                continue
        if c == "core::option::Option::<T>::ok_or" and len(t["args"]) == 2 and not t["dest"]["proj"] and t["args"][0]["k"] in ("move", "copy") \
                and not t["args"][0]["place"]["proj"] and rec.get("_okor_plain", 0) < 8:
            # o.ok_or(e) (not followed by `?` in this function)  ->  match o { Some(v) => Ok(v), None => Err(e) }
            ol = t["args"][0]["place"]["local"]
            oty = rec["locals"][ol]
            dty = rec["locals"][t["dest"]["local"]]
            nxt = rec["blocks"][t["target"]]["term"] if t.get("target") is not None else {}
            followed_by_try = nxt.get("k") == "call" and (nxt.get("resolved") or nxt.get("callee")) == TRY_BRANCH
            if not followed_by_try and oty.get("k") == "adt" and oty.get("args") and dty.get("k") == "adt" and len(dty.get("args") or []) == 2:
                line = t.get("line")
                isz = {"k": "int", "bits": 64, "name": "isize"}
                n = len(rec["locals"])
                rec["locals"].append(isz)
                nb = len(rec["blocks"])
                blk["stmts"] = list(blk["stmts"]) + [{"k": "assign", "place": {"local": n, "proj": []}, "rv": {"k": "discr", "place": {"local": ol, "proj": []}}, "line": line}]
                blk["term"] = {"k": "switch", "discr": {"k": "move", "place": {"local": n, "proj": []}}, "dty": isz, "arms": [[1, nb], [0, nb + 1]], "otherwise": nb + 2, "line": line}
                rec["blocks"].append({"stmts": [{"k": "assign", "place": copy.deepcopy(t["dest"]),
                                                 "rv": {"k": "aggregate", "agg": "adt", "path": "core::result::Result", "variant": 0, "vname": "Ok", "args": dty["args"], "is_enum": True,
                                                        "ops": [{"k": "move", "place": {"local": ol, "proj": [{"k": "downcast", "variant": 1, "name": "Some"}, {"k": "field", "i": 0, "ty": oty["args"][0]}]}}]},
                                                 "line": line}], "term": {"k": "goto", "target": t["target"]}})
                rec["blocks"].append({"stmts": [{"k": "assign", "place": copy.deepcopy(t["dest"]),
                                                 "rv": {"k": "aggregate", "agg": "adt", "path": "core::result::Result", "variant": 1, "vname": "Err", "args": dty["args"], "is_enum": True,
                                                        "ops": [copy.deepcopy(t["args"][1])]}, "line": line}], "term": {"k": "goto", "target": t["target"]}})
                rec["blocks"].append({"stmts": [], "term": {"k": "unreachable"}})
                rec["_okor_plain"] = rec.get("_okor_plain", 0) + 1
                stats.setdefault(rec["path"], []).append("desugar:ok_or")
                changed = True
                continue
        if c == "core::option::Option::<core::result::Result<T, E>>::transpose" and len(t["args"]) == 1 and not t["dest"]["proj"] \
                and t["args"][0]["k"] in ("move", "copy") and not t["args"][0]["place"]["proj"]:
            # o.transpose()  ->  match o { Some(Ok(v)) => Ok(Some(v)), Some(Err(e)) => Err(e), None => Ok(None) }
            ol = t["args"][0]["place"]["local"]
            oty = rec["locals"][ol]
            dty = rec["locals"][t["dest"]["local"]]
            if oty.get("k") == "adt" and oty.get("args") and oty["args"][0].get("path") == "core::result::Result" and dty.get("k") == "adt" and len(dty.get("args") or []) == 2:
                rty = oty["args"][0]
                vty, ety = rty["args"]
                opt_v = dty["args"][0]
                line = t.get("line")
                isz = {"k": "int", "bits": 64, "name": "isize"}
                n = len(rec["locals"])
                rec["locals"].extend([isz, isz, opt_v])
                d1, d2, tmp = n, n + 1, n + 2
                nb = len(rec["blocks"])
                SOME, OKB, ERRB, NONE, UNR = nb, nb + 1, nb + 2, nb + 3, nb + 4
                inner = [{"k": "downcast", "variant": 1, "name": "Some"}, {"k": "field", "i": 0, "ty": rty}]
                blk["stmts"] = list(blk["stmts"]) + [{"k": "assign", "place": {"local": d1, "proj": []}, "rv": {"k": "discr", "place": {"local": ol, "proj": []}}, "line": line}]
                blk["term"] = {"k": "switch", "discr": {"k": "move", "place": {"local": d1, "proj": []}}, "dty": isz, "arms": [[1, SOME], [0, NONE]], "otherwise": UNR, "line": line}
                rec["blocks"].append({"stmts": [{"k": "assign", "place": {"local": d2, "proj": []}, "rv": {"k": "discr", "place": {"local": ol, "proj": inner}}, "line": line}],
                                      "term": {"k": "switch", "discr": {"k": "move", "place": {"local": d2, "proj": []}}, "dty": isz, "arms": [[0, OKB], [1, ERRB]], "otherwise": UNR, "line": line}})
                rec["blocks"].append({"stmts": [
                    {"k": "assign", "place": {"local": tmp, "proj": []},
                     "rv": {"k": "aggregate", "agg": "adt", "path": "core::option::Option", "variant": 1, "vname": "Some", "args": opt_v.get("args", []), "is_enum": True,
                            "ops": [{"k": "move", "place": {"local": ol, "proj": inner + [{"k": "downcast", "variant": 0, "name": "Ok"}, {"k": "field", "i": 0, "ty": vty}]}}]}, "line": line},
                    {"k": "assign", "place": copy.deepcopy(t["dest"]),
                     "rv": {"k": "aggregate", "agg": "adt", "path": "core::result::Result", "variant": 0, "vname": "Ok", "args": dty["args"], "is_enum": True,
                            "ops": [{"k": "move", "place": {"local": tmp, "proj": []}}]}, "line": line}], "term": {"k": "goto", "target": t["target"]}})
                rec["blocks"].append({"stmts": [
                    {"k": "assign", "place": copy.deepcopy(t["dest"]),
                     "rv": {"k": "aggregate", "agg": "adt", "path": "core::result::Result", "variant": 1, "vname": "Err", "args": dty["args"], "is_enum": True,
                            "ops": [{"k": "move", "place": {"local": ol, "proj": inner + [{"k": "downcast", "variant": 1, "name": "Err"}, {"k": "field", "i": 0, "ty": ety}]}}]}, "line": line}],
                    "term": {"k": "goto", "target": t["target"]}})
                rec["blocks"].append({"stmts": [
                    {"k": "assign", "place": {"local": tmp, "proj": []},
                     "rv": {"k": "aggregate", "agg": "adt", "path": "core::option::Option", "variant": 0, "vname": "None", "args": opt_v.get("args", []), "is_enum": True, "ops": []}, "line": line},
                    {"k": "assign", "place": copy.deepcopy(t["dest"]),
                     "rv": {"k": "aggregate", "agg": "adt", "path": "core::result::Result", "variant": 0, "vname": "Ok", "args": dty["args"], "is_enum": True,
                            "ops": [{"k": "move", "place": {"local": tmp, "proj": []}}]}, "line": line}], "term": {"k": "goto", "target": t["target"]}})
                rec["blocks"].append({"stmts": [], "term": {"k": "unreachable"}})
                stats.setdefault(rec["path"], []).append("desugar:transpose")
                changed = True
                continue
        if c in ("core::result::Result::<T, E>::unwrap_or", "core::option::Option::<T>::unwrap_or") and len(t["args"]) == 2 and not t["dest"]["proj"] \
                and t["args"][0]["k"] in ("move", "copy") and not t["args"][0]["place"]["proj"]:
            # r.unwrap_or(d)  ->  match r { Ok(v) | Some(v) => v, _ => d }
            rl = t["args"][0]["place"]["local"]
            rty = rec["locals"][rl]
            is_opt = c.startswith("core::option")
            if rty.get("k") == "adt" and rty.get("args"):
                hit = (1, "Some") if is_opt else (0, "Ok")
                oth = 0 if is_opt else 1
                line = t.get("line")
                isz = {"k": "int", "bits": 64, "name": "isize"}
                n = len(rec["locals"])
                rec["locals"].append(isz)
                nb = len(rec["blocks"])
                blk["stmts"] = list(blk["stmts"]) + [{"k": "assign", "place": {"local": n, "proj": []}, "rv": {"k": "discr", "place": {"local": rl, "proj": []}}, "line": line}]
                blk["term"] = {"k": "switch", "discr": {"k": "move", "place": {"local": n, "proj": []}}, "dty": isz, "arms": [[hit[0], nb], [oth, nb + 1]], "otherwise": nb + 2, "line": line}
                rec["blocks"].append({"stmts": [{"k": "assign", "place": copy.deepcopy(t["dest"]),
                                                 "rv": {"k": "use", "op": {"k": "move", "place": {"local": rl, "proj": [{"k": "downcast", "variant": hit[0], "name": hit[1]},
                                                                                                                      {"k": "field", "i": 0, "ty": rty["args"][0]}]}}}, "line": line}],
                                      "term": {"k": "goto", "target": t["target"]}})
                rec["blocks"].append({"stmts": [{"k": "assign", "place": copy.deepcopy(t["dest"]), "rv": {"k": "use", "op": copy.deepcopy(t["args"][1])}, "line": line}],
                                      "term": {"k": "goto", "target": t["target"]}})
                rec["blocks"].append({"stmts": [], "term": {"k": "unreachable"}})
                stats.setdefault(rec["path"], []).append("desugar:unwrap_or")
                changed = True
                continue
        if c == "core::result::Result::<T, E>::ok" and len(t["args"]) == 1 and not t["dest"]["proj"] and t["args"][0]["k"] in ("move", "copy") \
                and not t["args"][0]["place"]["proj"]:
            # r.ok()  ->  match r { Ok(v) => Some(v), Err(_) => None }
            rl = t["args"][0]["place"]["local"]
            rty = rec["locals"][rl]
            dty = rec["locals"][t["dest"]["local"]]
            if rty.get("k") == "adt" and len(rty.get("args") or []) == 2 and dty.get("k") == "adt" and dty.get("args"):
                line = t.get("line")
                isz = {"k": "int", "bits": 64, "name": "isize"}
                n = len(rec["locals"])
                rec["locals"].append(isz)
                nb = len(rec["blocks"])
                blk["stmts"] = list(blk["stmts"]) + [{"k": "assign", "place": {"local": n, "proj": []}, "rv": {"k": "discr", "place": {"local": rl, "proj": []}}, "line": line}]
                blk["term"] = {"k": "switch", "discr": {"k": "move", "place": {"local": n, "proj": []}}, "dty": isz, "arms": [[0, nb], [1, nb + 1]], "otherwise": nb + 2, "line": line}
                rec["blocks"].append({"stmts": [{"k": "assign", "place": copy.deepcopy(t["dest"]),
                                                 "rv": {"k": "aggregate", "agg": "adt", "path": "core::option::Option", "variant": 1, "vname": "Some", "args": dty["args"], "is_enum": True,
                                                        "ops": [{"k": "move", "place": {"local": rl, "proj": [{"k": "downcast", "variant": 0, "name": "Ok"}, {"k": "field", "i": 0, "ty": rty["args"][0]}]}}]},
                                                 "line": line}], "term": {"k": "goto", "target": t["target"]}})
                rec["blocks"].append({"stmts": [{"k": "assign", "place": copy.deepcopy(t["dest"]),
                                                 "rv": {"k": "aggregate", "agg": "adt", "path": "core::option::Option", "variant": 0, "vname": "None", "args": dty["args"], "is_enum": True, "ops": []},
                                                 "line": line}], "term": {"k": "goto", "target": t["target"]}})
                rec["blocks"].append({"stmts": [], "term": {"k": "unreachable"}})
                stats.setdefault(rec["path"], []).append("desugar:Result::ok")
                changed = True
                continue
        if c == "core::option::Option::<T>::filter" and len(t["args"]) == 2 and not t["dest"]["proj"] \
                and all(a_["k"] in ("move", "copy") and not a_["place"]["proj"] for a_ in t["args"]) \
                and rec["locals"][t["args"][1]["place"]["local"]].get("k") == "closure":
            # o.filter(p)  ->  match o { Some(v) => if p(&v) { Some(v) } else { None }, None => None }
            ol, fl = t["args"][0]["place"]["local"], t["args"][1]["place"]["local"]
            oty = rec["locals"][ol]
            fty = rec["locals"][fl]
            if oty.get("k") == "adt" and oty.get("args"):
                pay = oty["args"][0]
                refty = {"k": "ref", "mut": False, "to": pay}
                line = t.get("line")
                isz = {"k": "int", "bits": 64, "name": "isize"}
                n = len(rec["locals"])
                rec["locals"].extend([isz, pay, refty, {"k": "tuple", "elems": [refty]}, BOOL])
                d, v, rf, tup, pr = range(n, n + 5)
                nb = len(rec["blocks"])
                SOME, TEST, KEEP, NONE, UNR = nb, nb + 1, nb + 2, nb + 3, nb + 4
                blk["stmts"] = list(blk["stmts"]) + [{"k": "assign", "place": {"local": d, "proj": []}, "rv": {"k": "discr", "place": {"local": ol, "proj": []}}, "line": line}]
                blk["term"] = {"k": "switch", "discr": {"k": "move", "place": {"local": d, "proj": []}}, "dty": isz, "arms": [[1, SOME], [0, NONE]], "otherwise": UNR, "line": line}
                rec["blocks"].append({"stmts": [
                    {"k": "assign", "place": {"local": v, "proj": []},
                     "rv": {"k": "use", "op": {"k": "move", "place": {"local": ol, "proj": [{"k": "downcast", "variant": 1, "name": "Some"}, {"k": "field", "i": 0, "ty": pay}]}}}, "line": line},
                    {"k": "assign", "place": {"local": rf, "proj": []}, "rv": {"k": "ref", "mut": False, "place": {"local": v, "proj": []}}, "line": line},
                    {"k": "assign", "place": {"local": tup, "proj": []}, "rv": {"k": "aggregate", "agg": "tuple", "ops": [{"k": "move", "place": {"local": rf, "proj": []}}]}, "line": line}],
                    "term": {"k": "call", "callee": "core::ops::FnOnce::call_once", "resolved": None, "cargs": [fty, {"k": "tuple", "elems": [refty]}], "rargs": [],
                             "args": [{"k": "move", "place": {"local": fl, "proj": []}}, {"k": "move", "place": {"local": tup, "proj": []}}], "dest": {"local": pr, "proj": []},
                             "target": TEST, "line": line}})
                rec["blocks"].append({"stmts": [], "term": {"k": "switch", "discr": {"k": "move", "place": {"local": pr, "proj": []}}, "dty": BOOL, "arms": [[0, NONE]], "otherwise": KEEP, "line": line}})
                rec["blocks"].append({"stmts": [{"k": "assign", "place": copy.deepcopy(t["dest"]),
                                                 "rv": {"k": "aggregate", "agg": "adt", "path": "core::option::Option", "variant": 1, "vname": "Some", "args": oty["args"], "is_enum": True,
                                                        "ops": [{"k": "move", "place": {"local": v, "proj": []}}]}, "line": line}], "term": {"k": "goto", "target": t["target"]}})
                rec["blocks"].append({"stmts": [{"k": "assign", "place": copy.deepcopy(t["dest"]),
                                                 "rv": {"k": "aggregate", "agg": "adt", "path": "core::option::Option", "variant": 0, "vname": "None", "args": oty["args"], "is_enum": True, "ops": []},
                                                 "line": line}], "term": {"k": "goto", "target": t["target"]}})
                rec["blocks"].append({"stmts": [], "term": {"k": "unreachable"}})
                stats.setdefault(rec["path"], []).append("desugar:Option::filter")
                changed = True
                continue
        if c in ("core::option::Option::<T>::and_then", "core::result::Result::<T, E>::and_then") and len(t["args"]) == 2 and not t["dest"]["proj"] \
                and t["args"][0]["k"] in ("move", "copy") and not t["args"][0]["place"]["proj"] \
                and ((t["args"][1]["k"] in ("move", "copy") and not t["args"][1]["place"]["proj"] and rec["locals"][t["args"][1]["place"]["local"]].get("k") == "closure")
                     or (t["args"][1]["k"] == "const" and (t["args"][1].get("ty") or {}).get("k") == "fndef")):
            # o.and_then(f)  ->  match o { Some(v) => f(v), None => None }        r.and_then(f)  ->  match r { Ok(v) => f(v), Err(e) => Err(e) }
            ol = t["args"][0]["place"]["local"]
            f_item = t["args"][1] if t["args"][1]["k"] == "const" else None
            fl = None if f_item is not None else t["args"][1]["place"]["local"]
            oty = rec["locals"][ol]
            fty = rec["locals"][fl] if fl is not None else None
            dty = rec["locals"][t["dest"]["local"]]
            is_opt = c.startswith("core::option")
            if oty.get("k") == "adt" and oty.get("args") and dty.get("k") == "adt" and (is_opt or len(oty["args"]) == 2):
                pay = oty["args"][0]
                hit = (1, "Some") if is_opt else (0, "Ok")
                line = t.get("line")
                isz = {"k": "int", "bits": 64, "name": "isize"}
                n = len(rec["locals"])
                rec["locals"].extend([isz, pay, {"k": "tuple", "elems": [pay]}])
                d, v, tup = range(n, n + 3)
                nb = len(rec["blocks"])
                HIT, MISS, UNR = nb, nb + 1, nb + 2
                blk["stmts"] = list(blk["stmts"]) + [{"k": "assign", "place": {"local": d, "proj": []}, "rv": {"k": "discr", "place": {"local": ol, "proj": []}}, "line": line}]
                blk["term"] = {"k": "switch", "discr": {"k": "move", "place": {"local": d, "proj": []}}, "dty": isz, "arms": [[hit[0], HIT], [1 - hit[0], MISS]], "otherwise": UNR, "line": line}
                if f_item is not None:
                    # a function item (`NonZeroU8::new`, a crate fn): called directly
                    fpath = f_item["ty"]["path"]
                    rf = resolve_fn_item(prog, f_item["ty"]) if fpath not in prog.fns else fpath
                    rec["blocks"].append({"stmts": [
                        {"k": "assign", "place": {"local": v, "proj": []},
                         "rv": {"k": "use", "op": {"k": "move", "place": {"local": ol, "proj": [{"k": "downcast", "variant": hit[0], "name": hit[1]}, {"k": "field", "i": 0, "ty": pay}]}}}, "line": line}],
                        "term": {"k": "call", "callee": fpath, "resolved": rf or fpath, "cargs": f_item["ty"].get("args", []), "rargs": f_item["ty"].get("args", []),
                                 "args": [{"k": "move", "place": {"local": v, "proj": []}}], "dest": copy.deepcopy(t["dest"]), "target": t["target"], "line": line}})
                else:
                    rec["blocks"].append({"stmts": [
                        {"k": "assign", "place": {"local": v, "proj": []},
                         "rv": {"k": "use", "op": {"k": "move", "place": {"local": ol, "proj": [{"k": "downcast", "variant": hit[0], "name": hit[1]}, {"k": "field", "i": 0, "ty": pay}]}}}, "line": line},
                        {"k": "assign", "place": {"local": tup, "proj": []}, "rv": {"k": "aggregate", "agg": "tuple", "ops": [{"k": "move", "place": {"local": v, "proj": []}}]}, "line": line}],
                        "term": {"k": "call", "callee": "core::ops::FnOnce::call_once", "resolved": None, "cargs": [fty, {"k": "tuple", "elems": [pay]}], "rargs": [],
                                 "args": [{"k": "move", "place": {"local": fl, "proj": []}}, {"k": "move", "place": {"local": tup, "proj": []}}], "dest": copy.deepcopy(t["dest"]),
                                 "target": t["target"], "line": line}})
                if is_opt:
                    miss = {"k": "aggregate", "agg": "adt", "path": "core::option::Option", "variant": 0, "vname": "None", "args": dty.get("args", []), "is_enum": True, "ops": []}
                else:
                    miss = {"k": "aggregate", "agg": "adt", "path": "core::result::Result", "variant": 1, "vname": "Err", "args": dty.get("args", []), "is_enum": True,
                            "ops": [{"k": "move", "place": {"local": ol, "proj": [{"k": "downcast", "variant": 1, "name": "Err"}, {"k": "field", "i": 0, "ty": oty["args"][1]}]}}]}
                rec["blocks"].append({"stmts": [{"k": "assign", "place": copy.deepcopy(t["dest"]), "rv": miss, "line": line}], "term": {"k": "goto", "target": t["target"]}})
                rec["blocks"].append({"stmts": [], "term": {"k": "unreachable"}})
                stats.setdefault(rec["path"], []).append("desugar:and_then")
                changed = True
                continue
        if c in ("core::result::Result::<T, E>::map_or", "core::option::Option::<T>::map_or") and len(t["args"]) == 3 \
                and t["args"][0]["k"] in ("move", "copy") and not t["args"][0]["place"]["proj"] and not t["dest"]["proj"]:
            # r.map_or(d, f)  ->  match r { Ok(v) | Some(v) => f(v), _ => d }        (d is already evaluated: an operand)
            r = t["args"][0]
            rl = r["place"]["local"]
            rty = rec["locals"][rl]
            d_op, f_ = t["args"][1], t["args"][2]
            is_opt = c.startswith("core::option")
            if not (rty.get("k") == "adt" and rty.get("args")):
                continue
            hit = (1, "Some") if is_opt else (0, "Ok")
            oth = 0 if is_opt else 1
            pay_in = rty["args"][0]
            line = t.get("line")
            n = len(rec["locals"])
            rec["locals"].extend([{"k": "int", "bits": 64, "name": "isize"}, pay_in])
            dsc, pin = n, n + 1
            nb = len(rec["blocks"])
            pre = [{"k": "assign", "place": {"local": pin, "proj": []},
                    "rv": {"k": "use", "op": {"k": "move", "place": {"local": rl, "proj": [{"k": "downcast", "variant": hit[0], "name": hit[1]}, {"k": "field", "i": 0, "ty": pay_in}]}}}, "line": line}]
            if f_["k"] == "const" and f_.get("ty", {}).get("k") == "fndef":
                fpath = resolve_fn_item(prog, f_["ty"])
                callt = {"k": "call", "callee": f_["ty"]["path"], "resolved": fpath, "cargs": f_["ty"].get("args", []), "rargs": f_["ty"].get("args", []),
                         "args": [{"k": "move", "place": {"local": pin, "proj": []}}], "dest": copy.deepcopy(t["dest"]), "target": t["target"], "line": line}
            elif f_["k"] in ("move", "copy") and not f_["place"]["proj"] and rec["locals"][f_["place"]["local"]].get("k") == "closure":
                tup = len(rec["locals"])
                rec["locals"].append({"k": "tuple", "elems": [pay_in]})
                pre.append({"k": "assign", "place": {"local": tup, "proj": []}, "rv": {"k": "aggregate", "agg": "tuple", "ops": [{"k": "move", "place": {"local": pin, "proj": []}}]}, "line": line})
                callt = {"k": "call", "callee": "core::ops::FnOnce::call_once", "resolved": None, "cargs": [rec["locals"][f_["place"]["local"]], {"k": "tuple", "elems": [pay_in]}], "rargs": [],
                         "args": [copy.deepcopy(f_), {"k": "move", "place": {"local": tup, "proj": []}}], "dest": copy.deepcopy(t["dest"]), "target": t["target"], "line": line}
            else:
                del rec["locals"][n:]
                continue
            ctor = _variant_ctor(prog, f_["ty"]) if f_["k"] == "const" and f_.get("ty", {}).get("k") == "fndef" else None
            if ctor is not None:
                # the mapped function is a tuple-variant constructor (`Message::Msg1005`): an aggregate, not a call
                apath_, vi_, vname_, aargs_ = ctor
                pre.append({"k": "assign", "place": copy.deepcopy(t["dest"]),
                            "rv": {"k": "aggregate", "agg": "adt", "path": apath_, "variant": vi_, "vname": vname_, "args": aargs_, "is_enum": True,
                                   "ops": [{"k": "move", "place": {"local": pin, "proj": []}}]}, "line": line})
                callt = {"k": "goto", "target": t["target"]}
            rec["blocks"].append({"stmts": pre, "term": callt})
            rec["blocks"].append({"stmts": [{"k": "assign", "place": copy.deepcopy(t["dest"]), "rv": {"k": "use", "op": copy.deepcopy(d_op)}, "line": line}],
                                  "term": {"k": "goto", "target": t["target"]}})
            rec["blocks"].append({"stmts": [], "term": {"k": "unreachable"}})
            blk["stmts"] = list(blk["stmts"]) + [{"k": "assign", "place": {"local": dsc, "proj": []}, "rv": {"k": "discr", "place": {"local": rl, "proj": []}}, "line": line}]
            blk["term"] = {"k": "switch", "discr": {"k": "move", "place": {"local": dsc, "proj": []}}, "dty": {"k": "int", "bits": 64, "name": "isize"},
                           "arms": [[hit[0], nb], [oth, nb + 1]], "otherwise": nb + 2, "line": line}
            stats.setdefault(rec["path"], []).append("desugar:map_or")
            changed = True
            continue
        if c == "core::iter::Iterator::try_fold" and len(t["args"]) == 3 and not t["dest"]["proj"] and len(t.get("cargs") or []) == 4 \
                and t["cargs"][0].get("k") == "adt" and t["cargs"][0].get("path") in NEXT_RESOLVE \
                and t["cargs"][3].get("k") == "adt" and t["cargs"][3].get("path") == "core::result::Result" and t["cargs"][3]["args"][0] == t["cargs"][1] \
                and all(a_["k"] in ("move", "copy") and not a_["place"]["proj"] for a_ in (t["args"][0], t["args"][2])) \
                and (t["args"][1]["k"] == "const" or (t["args"][1]["k"] in ("move", "copy") and not t["args"][1]["place"]["proj"])) \
                and rec["locals"][t["args"][2]["place"]["local"]].get("k") == "closure" and rec["locals"][t["args"][2]["place"]["local"]].get("path") in prog.fns:
            # it.try_fold(init, |acc, x| body)  ->  let mut acc = init; loop { match it.next() { None => break Ok(acc), Some(x) => acc = body(acc, x)? } }
            ity, accty, fty, rty = t["cargs"]
            itl, fl = t["args"][0]["place"]["local"], t["args"][2]["place"]["local"]
            init_op = copy.deepcopy(t["args"][1])
            cl = prog.fns[fty["path"]].rec
            if len(cl["locals"]) >= 4 and cl.get("argc") == 3:
                item_ty = cl["locals"][3]
                by_ref = rec["locals"][itl].get("k") == "ref"
                it_place = {"local": itl, "proj": [{"k": "deref"}]} if by_ref else {"local": itl, "proj": []}
                if by_ref:
                    dfn = _single_def(rec, itl)
                    if dfn is not None and dfn[0] == "stmt" and dfn[3]["rv"]["k"] == "ref" and not dfn[3]["rv"]["place"]["proj"] and _uses_of(rec, itl) == 2:
                        it_place = {"local": dfn[3]["rv"]["place"]["local"], "proj": []}
                        rec["blocks"][dfn[1]]["stmts"] = [x_ for x_ in rec["blocks"][dfn[1]]["stmts"] if x_ is not dfn[3]]
                line = t.get("line")
                isz = {"k": "int", "bits": 64, "name": "isize"}
                opt_ty = {"k": "adt", "path": "core::option::Option", "args": [item_ty], "s": "core::option::Option<Item>"}
                n = len(rec["locals"])
                rec["locals"].extend([accty, {"k": "ref", "mut": True, "to": ity}, opt_ty, isz, item_ty, {"k": "tuple", "elems": [accty, item_ty]},
                                      {"k": "ref", "mut": True, "to": fty}, rty, isz])
                acc, r, nx, d, item, tup, cr, rr, d2 = range(n, n + 9)
                nb = len(rec["blocks"])
                H, S, N, B, C, K, E, U = nb, nb + 1, nb + 2, nb + 3, nb + 4, nb + 5, nb + 6, nb + 7
                blk["stmts"] = list(blk["stmts"]) + [{"k": "assign", "place": {"local": acc, "proj": []}, "rv": {"k": "use", "op": init_op}, "line": line}]
                blk["term"] = {"k": "goto", "target": H}
                rec["blocks"].append({"stmts": [{"k": "assign", "place": {"local": r, "proj": []}, "rv": {"k": "ref", "mut": True, "place": it_place}, "line": line}],
                                      "term": {"k": "call", "callee": "core::iter::Iterator::next", "resolved": NEXT_RESOLVE[ity["path"]], "cargs": [ity], "rargs": ity.get("args", []),
                                               "args": [{"k": "move", "place": {"local": r, "proj": []}}], "dest": {"local": nx, "proj": []}, "target": S, "line": line}})
                rec["blocks"].append({"stmts": [{"k": "assign", "place": {"local": d, "proj": []}, "rv": {"k": "discr", "place": {"local": nx, "proj": []}}, "line": line}],
                                      "term": {"k": "switch", "discr": {"k": "move", "place": {"local": d, "proj": []}}, "dty": isz, "arms": [[0, N], [1, B]], "otherwise": U, "line": line}})
                rec["blocks"].append({"stmts": [{"k": "assign", "place": copy.deepcopy(t["dest"]),
                                                 "rv": {"k": "aggregate", "agg": "adt", "path": "core::result::Result", "variant": 0, "vname": "Ok", "args": rty["args"], "is_enum": True,
                                                        "ops": [{"k": "move", "place": {"local": acc, "proj": []}}]}, "line": line}], "term": {"k": "goto", "target": t["target"]}})
                rec["blocks"].append({"stmts": [
                    {"k": "assign", "place": {"local": item, "proj": []},
                     "rv": {"k": "use", "op": {"k": "move", "place": {"local": nx, "proj": [{"k": "downcast", "variant": 1, "name": "Some"}, {"k": "field", "i": 0, "ty": item_ty}]}}}, "line": line},
                    {"k": "assign", "place": {"local": tup, "proj": []}, "rv": {"k": "aggregate", "agg": "tuple", "ops": [{"k": "move", "place": {"local": acc, "proj": []}},
                                                                                                                    {"k": "move", "place": {"local": item, "proj": []}}]}, "line": line},
                    {"k": "assign", "place": {"local": cr, "proj": []}, "rv": {"k": "ref", "mut": True, "place": {"local": fl, "proj": []}}, "line": line}],
                    "term": {"k": "call", "callee": "core::ops::FnMut::call_mut", "resolved": None, "cargs": [fty, {"k": "tuple", "elems": [accty, item_ty]}], "rargs": [],
                             "args": [{"k": "move", "place": {"local": cr, "proj": []}}, {"k": "move", "place": {"local": tup, "proj": []}}], "dest": {"local": rr, "proj": []},
                             "target": C, "line": line}})
                rec["blocks"].append({"stmts": [{"k": "assign", "place": {"local": d2, "proj": []}, "rv": {"k": "discr", "place": {"local": rr, "proj": []}}, "line": line}],
                                      "term": {"k": "switch", "discr": {"k": "move", "place": {"local": d2, "proj": []}}, "dty": isz, "arms": [[0, K], [1, E]], "otherwise": U, "line": line}})
                rec["blocks"].append({"stmts": [{"k": "assign", "place": {"local": acc, "proj": []},
                                                 "rv": {"k": "use", "op": {"k": "move", "place": {"local": rr, "proj": [{"k": "downcast", "variant": 0, "name": "Ok"}, {"k": "field", "i": 0, "ty": accty}]}}},
                                                 "line": line}], "term": {"k": "goto", "target": H}})
                rec["blocks"].append({"stmts": [{"k": "assign", "place": copy.deepcopy(t["dest"]),
                                                 "rv": {"k": "aggregate", "agg": "adt", "path": "core::result::Result", "variant": 1, "vname": "Err", "args": rty["args"], "is_enum": True,
                                                        "ops": [{"k": "move", "place": {"local": rr, "proj": [{"k": "downcast", "variant": 1, "name": "Err"},
                                                                                                          {"k": "field", "i": 0, "ty": rty["args"][1]}]}}]}, "line": line}],
                                      "term": {"k": "goto", "target": t["target"]}})
                rec["blocks"].append({"stmts": [], "term": {"k": "unreachable"}})
                stats.setdefault(rec["path"], []).append("desugar:try_fold")
                changed = True
                continue
        if c in ("core::iter::Iterator::try_for_each", "core::iter::Iterator::for_each") and len(t["args"]) == 2 and not t["dest"]["proj"] \
                and t.get("cargs") and ((t["cargs"][0].get("k") == "adt" and t["cargs"][0].get("path") in ITER_NEXT_OF) or
                                        (t["cargs"][0].get("k") == "adt" and t["cargs"][0].get("path") in ADAPTOR_NEXT_OF
                                         and _closure_arg_ty(prog, rec, t["args"][1]) is not None) or
                                        (t["cargs"][0].get("k") in ("other", "param") and _closure_arg_ty(prog, rec, t["args"][1]) is not None)) \
                and all(a["k"] in ("move", "copy") and not a["place"]["proj"] for a in t["args"]) \
                and rec["locals"][t["args"][1]["place"]["local"]].get("k") == "closure":
            # it.try_for_each(f)  ->  loop { match it.next() { None => break Ok(()), Some(x) => f(x)? } }      (for_each: without the `?`)
            ity = t["cargs"][0]
            it_op, f_op = t["args"]
            itl = it_op["place"]["local"]
            by_ref = rec["locals"][itl].get("k") == "ref"
            if c.endswith("for_each") and not c.endswith("try_for_each") and by_ref is False:
                pass
            generic_it = ity.get("k") != "adt"
            adaptor_next = ADAPTOR_NEXT_OF.get(ity.get("path")) if not generic_it else None
            if adaptor_next:
                # Enumerate<..> etc.: the item type is the closure's parameter type, `next` is the adaptor's own
                generic_it = True
            if generic_it:
                # an iterator of a generic type (`I::IntoIter`): `next` stays the unresolved trait call rustc emits for a plain `for` loop,
                # the item type is the closure's parameter type
                elem = {"k": "other"}
                item_ty = _closure_arg_ty(prog, rec, t["args"][1])
            else:
                elem = ity["args"][0] if ity.get("args") else {"k": "other"}
                item_ty = {"k": "ref", "mut": ity["path"].endswith("IterMut"), "to": elem}
            opt_ty = {"k": "adt", "path": "core::option::Option", "args": [item_ty], "s": "core::option::Option<&T>"}
            fl = f_op["place"]["local"]
            fty = rec["locals"][fl]
            dty = rec["locals"][t["dest"]["local"]]
            is_try = c.endswith("try_for_each")
            line = t.get("line")
            n = len(rec["locals"])
            # locals: r (reborrow), nx, d, item, tup, cr, rr, d2
            rec["locals"].extend([{"k": "ref", "mut": True, "to": ity}, opt_ty, {"k": "int", "bits": 64, "name": "isize"}, item_ty,
                                  {"k": "tuple", "elems": [item_ty]}, {"k": "ref", "mut": True, "to": fty}, dty if is_try else {"k": "tuple", "elems": []},
                                  {"k": "int", "bits": 64, "name": "isize"}])
            r, nx, d, item, tup, cr, rr, d2 = range(n, n + 8)
            nb = len(rec["blocks"])
            H, S, N, B, C, E, U = nb, nb + 1, nb + 2, nb + 3, nb + 4, nb + 5, nb + 6
            it_place = {"local": itl, "proj": [{"k": "deref"}]} if by_ref else {"local": itl, "proj": []}
            if by_ref:
                dfn = _single_def(rec, itl)
                if dfn is not None and dfn[0] == "stmt" and dfn[3]["rv"]["k"] == "ref" and not dfn[3]["rv"]["place"]["proj"]:
                    it_place = {"local": dfn[3]["rv"]["place"]["local"], "proj": []}
                    # the original `&mut it` fed only the adaptor call: drop it, the loop re-borrows the iterator itself
                    uses = sum(json.dumps(bk).count('"local": %d,' % itl) for bk in rec["blocks"])
                    if uses == 2:
                        del rec["blocks"][dfn[1]]["stmts"][dfn[2]]
            rec["blocks"].append({"stmts": [{"k": "assign", "place": {"local": r, "proj": []}, "rv": {"k": "ref", "mut": True, "place": it_place}, "line": line}],
                                  "term": {"k": "call", "callee": "core::iter::Iterator::next", "resolved": adaptor_next if adaptor_next else (None if generic_it else ITER_NEXT_OF[ity["path"]]), "cargs": [ity],
                                           "rargs": (ity.get("args") or []) if adaptor_next else ([] if generic_it else [elem]),
                                           "args": [{"k": "move", "place": {"local": r, "proj": []}}], "dest": {"local": nx, "proj": []}, "target": S, "line": line}})
            rec["blocks"].append({"stmts": [{"k": "assign", "place": {"local": d, "proj": []}, "rv": {"k": "discr", "place": {"local": nx, "proj": []}}, "line": line}],
                                  "term": {"k": "switch", "discr": {"k": "move", "place": {"local": d, "proj": []}}, "dty": {"k": "int", "bits": 64, "name": "isize"},
                                           "arms": [[0, N], [1, B]], "otherwise": U, "line": line}})
            is_cf = is_try and dty.get("k") == "adt" and dty.get("path") == "core::ops::ControlFlow"
            if is_cf:
                okv = {"k": "aggregate", "agg": "adt", "path": "core::ops::ControlFlow", "variant": 0, "vname": "Continue", "args": dty.get("args", []), "is_enum": True,
                       "ops": [{"k": "const", "ty": {"k": "tuple", "elems": []}}]}
            elif is_try:
                okv = {"k": "aggregate", "agg": "adt", "path": "core::result::Result", "variant": 0, "vname": "Ok", "args": dty.get("args", []), "is_enum": True,
                       "ops": [{"k": "const", "ty": {"k": "tuple", "elems": []}}]}
            else:
                okv = {"k": "aggregate", "agg": "tuple", "ops": []}
            rec["blocks"].append({"stmts": [{"k": "assign", "place": copy.deepcopy(t["dest"]), "rv": okv, "line": line}], "term": {"k": "goto", "target": t["target"]}})
            rec["blocks"].append({"stmts": [
                {"k": "assign", "place": {"local": item, "proj": []},
                 "rv": {"k": "use", "op": {"k": "move", "place": {"local": nx, "proj": [{"k": "downcast", "variant": 1, "name": "Some"}, {"k": "field", "i": 0, "ty": item_ty}]}}}, "line": line},
                {"k": "assign", "place": {"local": tup, "proj": []}, "rv": {"k": "aggregate", "agg": "tuple", "ops": [{"k": "move", "place": {"local": item, "proj": []}}]}, "line": line},
                {"k": "assign", "place": {"local": cr, "proj": []}, "rv": {"k": "ref", "mut": True, "place": {"local": fl, "proj": []}}, "line": line}],
                "term": {"k": "call", "callee": "core::ops::FnMut::call_mut", "resolved": None, "cargs": [fty, {"k": "tuple", "elems": [item_ty]}], "rargs": [],
                         "args": [{"k": "move", "place": {"local": cr, "proj": []}}, {"k": "move", "place": {"local": tup, "proj": []}}], "dest": {"local": rr, "proj": []},
                         "target": C if is_try else H, "line": line}})
            rec["blocks"].append({"stmts": [{"k": "assign", "place": {"local": d2, "proj": []}, "rv": {"k": "discr", "place": {"local": rr, "proj": []}}, "line": line}],
                                  "term": {"k": "switch", "discr": {"k": "move", "place": {"local": d2, "proj": []}}, "dty": {"k": "int", "bits": 64, "name": "isize"},
                                           "arms": [[0, H], [1, E]], "otherwise": U, "line": line}})
            if is_cf:
                rec["blocks"].append({"stmts": [{"k": "assign", "place": copy.deepcopy(t["dest"]), "rv": {"k": "use", "op": {"k": "move", "place": {"local": rr, "proj": []}}}, "line": line}],
                                      "term": {"k": "goto", "target": t["target"]}})
            else:
                rec["blocks"].append({"stmts": [{"k": "assign", "place": copy.deepcopy(t["dest"]),
                                                 "rv": {"k": "aggregate", "agg": "adt", "path": "core::result::Result", "variant": 1, "vname": "Err", "args": dty.get("args", []), "is_enum": True,
                                                        "ops": [{"k": "move", "place": {"local": rr, "proj": [{"k": "downcast", "variant": 1, "name": "Err"},
                                                                                                          {"k": "field", "i": 0, "ty": (dty.get("args") or [None, {"k": "other"}])[1]}]}}]},
                                                 "line": line}], "term": {"k": "goto", "target": t["target"]}})
            rec["blocks"].append({"stmts": [], "term": {"k": "unreachable"}})
            blk["term"] = {"k": "goto", "target": H}
            stats.setdefault(rec["path"], []).append("desugar:" + c.rsplit("::", 1)[1])
            changed = True
            continue
        mi_ = re.fullmatch(r"core::cmp::impls::<impl core::cmp::PartialOrd for ([ui])(8|16|32|64|size)>::partial_cmp", c or "")
        if mi_ and len(t["args"]) == 2 and not t["dest"]["proj"] and all(a["k"] in ("move", "copy") and not a["place"]["proj"] for a in t["args"]):
            # a.partial_cmp(&b) on integers  ->  if a < b { Some(Less) } else if a == b { Some(Equal) } else { Some(Greater) }     (never None)
            # (`<` is tested first: everything that is not Less is dominated by its false edge, i.e. by a >= b)
            ity_ = {"k": "uint" if mi_.group(1) == "u" else "int", "bits": 64 if mi_.group(2) == "size" else int(mi_.group(2)), "name": mi_.group(1) + mi_.group(2)}
            bty = {"k": "bool"}
            dty = rec["locals"][t["dest"]["local"]]
            line = t.get("line")
            n = len(rec["locals"])
            rec["locals"].extend([ity_, ity_, bty, bty, {"k": "adt", "path": "core::cmp::Ordering", "args": [], "s": "core::cmp::Ordering"}])
            a_, b_, l_, e_, o_ = range(n, n + 5)
            nb = len(rec["blocks"])
            BL, B1, BE, BG = nb, nb + 1, nb + 2, nb + 3

            def some_i(vi, vn):
                return [{"k": "assign", "place": {"local": o_, "proj": []},
                         "rv": {"k": "aggregate", "agg": "adt", "path": "core::cmp::Ordering", "variant": vi, "vname": vn, "args": [], "is_enum": True, "ops": []}, "line": line},
                        {"k": "assign", "place": copy.deepcopy(t["dest"]),
                         "rv": {"k": "aggregate", "agg": "adt", "path": "core::option::Option", "variant": 1, "vname": "Some", "args": dty.get("args", []), "is_enum": True,
                                "ops": [{"k": "move", "place": {"local": o_, "proj": []}}]}, "line": line}]

            def test_i(dst, op):
                return {"k": "assign", "place": {"local": dst, "proj": []},
                        "rv": {"k": "binop", "op": op, "a": {"k": "copy", "place": {"local": a_, "proj": []}}, "b": {"k": "copy", "place": {"local": b_, "proj": []}}}, "line": line}

            def sw_i(dst, yes, no):
                return {"k": "switch", "discr": {"k": "move", "place": {"local": dst, "proj": []}}, "dty": bty, "arms": [[0, no]], "otherwise": yes, "line": line}
            blk["stmts"] = list(blk["stmts"]) + [
                {"k": "assign", "place": {"local": a_, "proj": []}, "rv": {"k": "use", "op": {"k": "copy", "place": {"local": t["args"][0]["place"]["local"], "proj": [{"k": "deref"}]}}}, "line": line},
                {"k": "assign", "place": {"local": b_, "proj": []}, "rv": {"k": "use", "op": {"k": "copy", "place": {"local": t["args"][1]["place"]["local"], "proj": [{"k": "deref"}]}}}, "line": line},
                test_i(l_, "Lt")]
            blk["term"] = sw_i(l_, BL, B1)
            rec["blocks"].append({"stmts": some_i(0, "Less"), "term": {"k": "goto", "target": t["target"]}})
            rec["blocks"].append({"stmts": [test_i(e_, "Eq")], "term": sw_i(e_, BE, BG)})
            rec["blocks"].append({"stmts": some_i(1, "Equal"), "term": {"k": "goto", "target": t["target"]}})
            rec["blocks"].append({"stmts": some_i(2, "Greater"), "term": {"k": "goto", "target": t["target"]}})
            stats.setdefault(rec["path"], []).append("desugar:partial_cmp_int")
            changed = True
            continue
        if re.fullmatch(r"core::cmp::impls::<impl core::cmp::PartialOrd for f(32|64)>::partial_cmp", c or "") and len(t["args"]) == 2 and not t["dest"]["proj"] \
                and all(a["k"] in ("move", "copy") and not a["place"]["proj"] for a in t["args"]):
            # a.partial_cmp(&b) on floats  ->  if a > b { Some(Greater) } else if a < b { Some(Less) } else if a == b { Some(Equal) } else { None }
            # (`>` is tested first so that everything that is not Greater is dominated by its false edge - the usual `match .. { Some(Greater) => p, _ => q }`)
            fty = {"k": "float", "bits": 32 if "f32" in c else 64}
            bty = {"k": "bool"}
            dty = rec["locals"][t["dest"]["local"]]
            line = t.get("line")
            n = len(rec["locals"])
            rec["locals"].extend([fty, fty, bty, bty, bty, {"k": "adt", "path": "core::cmp::Ordering", "args": [], "s": "core::cmp::Ordering"}])
            a_, b_, g_, l_, e_, o_ = range(n, n + 6)
            nb = len(rec["blocks"])
            BG, B1, BL, B2, BE, BN = nb, nb + 1, nb + 2, nb + 3, nb + 4, nb + 5

            def some(vi, vn):
                return [{"k": "assign", "place": {"local": o_, "proj": []},
                         "rv": {"k": "aggregate", "agg": "adt", "path": "core::cmp::Ordering", "variant": vi, "vname": vn, "args": [], "is_enum": True, "ops": []}, "line": line},
                        {"k": "assign", "place": copy.deepcopy(t["dest"]),
                         "rv": {"k": "aggregate", "agg": "adt", "path": "core::option::Option", "variant": 1, "vname": "Some", "args": dty.get("args", []), "is_enum": True,
                                "ops": [{"k": "move", "place": {"local": o_, "proj": []}}]}, "line": line}]

            def test(dst, op):
                return {"k": "assign", "place": {"local": dst, "proj": []},
                        "rv": {"k": "binop", "op": op, "a": {"k": "copy", "place": {"local": a_, "proj": []}}, "b": {"k": "copy", "place": {"local": b_, "proj": []}}}, "line": line}

            def sw(dst, yes, no):
                return {"k": "switch", "discr": {"k": "move", "place": {"local": dst, "proj": []}}, "dty": bty, "arms": [[0, no]], "otherwise": yes, "line": line}
            blk["stmts"] = list(blk["stmts"]) + [
                {"k": "assign", "place": {"local": a_, "proj": []}, "rv": {"k": "use", "op": {"k": "copy", "place": {"local": t["args"][0]["place"]["local"], "proj": [{"k": "deref"}]}}}, "line": line},
                {"k": "assign", "place": {"local": b_, "proj": []}, "rv": {"k": "use", "op": {"k": "copy", "place": {"local": t["args"][1]["place"]["local"], "proj": [{"k": "deref"}]}}}, "line": line},
                test(g_, "Gt")]
            blk["term"] = sw(g_, BG, B1)
            rec["blocks"].append({"stmts": some(2, "Greater"), "term": {"k": "goto", "target": t["target"]}})
            rec["blocks"].append({"stmts": [test(l_, "Lt")], "term": sw(l_, BL, B2)})
            rec["blocks"].append({"stmts": some(0, "Less"), "term": {"k": "goto", "target": t["target"]}})
            rec["blocks"].append({"stmts": [test(e_, "Eq")], "term": sw(e_, BE, BN)})
            rec["blocks"].append({"stmts": some(1, "Equal"), "term": {"k": "goto", "target": t["target"]}})
            rec["blocks"].append({"stmts": [{"k": "assign", "place": copy.deepcopy(t["dest"]),
                                             "rv": {"k": "aggregate", "agg": "adt", "path": "core::option::Option", "variant": 0, "vname": "None", "args": dty.get("args", []),
                                                    "is_enum": True, "ops": []}, "line": line}], "term": {"k": "goto", "target": t["target"]}})
            stats.setdefault(rec["path"], []).append("desugar:partial_cmp")
            changed = True
            continue
        if c == "core::iter::Iterator::find_map" and len(t["args"]) == 2 and not t["dest"]["proj"] and t.get("cargs") \
                and all(a["k"] in ("move", "copy") and not a["place"]["proj"] for a in t["args"]) \
                and rec["locals"][t["args"][1]["place"]["local"]].get("k") == "closure" and _closure_arg_ty(prog, rec, t["args"][1]) is not None \
                and rec["locals"][t["args"][0]["place"]["local"]].get("k") == "ref":
            # it.find_map(f)  ->  loop { match it.next() { None => break None, Some(x) => if let Some(r) = f(x) { break Some(r) } } }
            it_op, f_op = t["args"]
            itl = it_op["place"]["local"]
            ity = rec["locals"][itl]["to"]
            item_ty = _closure_arg_ty(prog, rec, f_op)
            fl = f_op["place"]["local"]
            fty = rec["locals"][fl]
            dty = rec["locals"][t["dest"]["local"]]
            if dty.get("k") == "adt" and dty.get("path") == "core::option::Option":
                nextfn = None
                if ity.get("k") == "adt":
                    nextfn = ITER_NEXT_OF.get(ity["path"]) or GENERIC_NEXT.get(ity["path"]) or (ADAPTOR_NEXT.get(ity["path"]) or (None,))[0]
                line = t.get("line")
                opt_ty = {"k": "adt", "path": "core::option::Option", "args": [item_ty], "s": "core::option::Option<T>"}
                isz = {"k": "int", "bits": 64, "name": "isize"}
                n = len(rec["locals"])
                rec["locals"].extend([{"k": "ref", "mut": True, "to": ity}, opt_ty, isz, item_ty, {"k": "tuple", "elems": [item_ty]}, {"k": "ref", "mut": True, "to": fty}, dty, isz])
                r, nx, d, item, tup, cr, rr, d2 = range(n, n + 8)
                nb = len(rec["blocks"])
                H, S, N, B, C, E, U = nb, nb + 1, nb + 2, nb + 3, nb + 4, nb + 5, nb + 6
                it_place = {"local": itl, "proj": [{"k": "deref"}]}
                dfn = _single_def(rec, itl)
                if dfn is not None and dfn[0] == "stmt" and dfn[3]["rv"]["k"] == "ref" and not dfn[3]["rv"]["place"]["proj"]:
                    it_place = {"local": dfn[3]["rv"]["place"]["local"], "proj": []}
                rec["blocks"].append({"stmts": [{"k": "assign", "place": {"local": r, "proj": []}, "rv": {"k": "ref", "mut": True, "place": it_place}, "line": line}],
                                      "term": {"k": "call", "callee": "core::iter::Iterator::next", "resolved": nextfn, "cargs": [ity], "rargs": ity.get("args") or [],
                                               "args": [{"k": "move", "place": {"local": r, "proj": []}}], "dest": {"local": nx, "proj": []}, "target": S, "line": line}})
                rec["blocks"].append({"stmts": [{"k": "assign", "place": {"local": d, "proj": []}, "rv": {"k": "discr", "place": {"local": nx, "proj": []}}, "line": line}],
                                      "term": {"k": "switch", "discr": {"k": "move", "place": {"local": d, "proj": []}}, "dty": isz, "arms": [[0, N], [1, B]], "otherwise": U, "line": line}})
                rec["blocks"].append({"stmts": [{"k": "assign", "place": copy.deepcopy(t["dest"]),
                                                 "rv": {"k": "aggregate", "agg": "adt", "path": "core::option::Option", "variant": 0, "vname": "None", "args": dty.get("args", []),
                                                        "is_enum": True, "ops": []}, "line": line}], "term": {"k": "goto", "target": t["target"]}})
                rec["blocks"].append({"stmts": [
                    {"k": "assign", "place": {"local": item, "proj": []},
                     "rv": {"k": "use", "op": {"k": "move", "place": {"local": nx, "proj": [{"k": "downcast", "variant": 1, "name": "Some"}, {"k": "field", "i": 0, "ty": item_ty}]}}}, "line": line},
                    {"k": "assign", "place": {"local": tup, "proj": []}, "rv": {"k": "aggregate", "agg": "tuple", "ops": [{"k": "move", "place": {"local": item, "proj": []}}]}, "line": line},
                    {"k": "assign", "place": {"local": cr, "proj": []}, "rv": {"k": "ref", "mut": True, "place": {"local": fl, "proj": []}}, "line": line}],
                    "term": {"k": "call", "callee": "core::ops::FnMut::call_mut", "resolved": None, "cargs": [fty, {"k": "tuple", "elems": [item_ty]}], "rargs": [],
                             "args": [{"k": "move", "place": {"local": cr, "proj": []}}, {"k": "move", "place": {"local": tup, "proj": []}}], "dest": {"local": rr, "proj": []},
                             "target": C, "line": line}})
                rec["blocks"].append({"stmts": [{"k": "assign", "place": {"local": d2, "proj": []}, "rv": {"k": "discr", "place": {"local": rr, "proj": []}}, "line": line}],
                                      "term": {"k": "switch", "discr": {"k": "move", "place": {"local": d2, "proj": []}}, "dty": isz, "arms": [[0, H], [1, E]], "otherwise": U, "line": line}})
                rec["blocks"].append({"stmts": [{"k": "assign", "place": copy.deepcopy(t["dest"]), "rv": {"k": "use", "op": {"k": "move", "place": {"local": rr, "proj": []}}}, "line": line}],
                                      "term": {"k": "goto", "target": t["target"]}})
                rec["blocks"].append({"stmts": [], "term": {"k": "unreachable"}})
                blk["term"] = {"k": "goto", "target": H}
                stats.setdefault(rec["path"], []).append("desugar:find_map")
                changed = True
                continue
        if c == "core::iter::Iterator::find" and len(t["args"]) == 2 and not t["dest"]["proj"] and t.get("cargs") \
                and all(a["k"] in ("move", "copy") and not a["place"]["proj"] for a in t["args"]) \
                and rec["locals"][t["args"][1]["place"]["local"]].get("k") == "closure" and (_closure_arg_ty(prog, rec, t["args"][1]) or {}).get("k") == "ref" \
                and rec["locals"][t["args"][0]["place"]["local"]].get("k") == "ref" and rec["locals"][t["args"][0]["place"]["local"]]["to"].get("k") == "adt" \
                and rec["locals"][t["dest"]["local"]].get("path") == "core::option::Option":
            # it.find(p)  ->  loop { match it.next() { None => break None, Some(x) => if p(&x) { break Some(x) } } }
            it_op, f_op = t["args"]
            itl = it_op["place"]["local"]
            ity = rec["locals"][itl]["to"]
            aty = _closure_arg_ty(prog, rec, f_op)
            item_ty = aty["to"]
            fl = f_op["place"]["local"]
            fty = rec["locals"][fl]
            dty = rec["locals"][t["dest"]["local"]]
            nextfn = ITER_NEXT_OF.get(ity["path"]) or GENERIC_NEXT.get(ity["path"]) or (ADAPTOR_NEXT.get(ity["path"]) or (None,))[0]
            if nextfn is not None:
                line = t.get("line")
                opt_ty = {"k": "adt", "path": "core::option::Option", "args": [item_ty], "s": "core::option::Option<T>"}
                isz = {"k": "int", "bits": 64, "name": "isize"}
                n = len(rec["locals"])
                rec["locals"].extend([{"k": "ref", "mut": True, "to": ity}, opt_ty, isz, item_ty, aty, {"k": "tuple", "elems": [aty]}, {"k": "ref", "mut": True, "to": fty}, {"k": "bool"}])
                r, nx, d, item, iref, tup, cr, rr = range(n, n + 8)
                nb = len(rec["blocks"])
                H, S, N, B, C, E, U = nb, nb + 1, nb + 2, nb + 3, nb + 4, nb + 5, nb + 6
                it_place = {"local": itl, "proj": [{"k": "deref"}]}
                dfn = _single_def(rec, itl)
                if dfn is not None and dfn[0] == "stmt" and dfn[3]["rv"]["k"] == "ref" and not dfn[3]["rv"]["place"]["proj"]:
                    it_place = {"local": dfn[3]["rv"]["place"]["local"], "proj": []}
                rec["blocks"].append({"stmts": [{"k": "assign", "place": {"local": r, "proj": []}, "rv": {"k": "ref", "mut": True, "place": it_place}, "line": line}],
                                      "term": {"k": "call", "callee": "core::iter::Iterator::next", "resolved": nextfn, "cargs": [ity], "rargs": ity.get("args") or [],
                                               "args": [{"k": "move", "place": {"local": r, "proj": []}}], "dest": {"local": nx, "proj": []}, "target": S, "line": line}})
                rec["blocks"].append({"stmts": [{"k": "assign", "place": {"local": d, "proj": []}, "rv": {"k": "discr", "place": {"local": nx, "proj": []}}, "line": line}],
                                      "term": {"k": "switch", "discr": {"k": "move", "place": {"local": d, "proj": []}}, "dty": isz, "arms": [[0, N], [1, B]], "otherwise": U, "line": line}})
                rec["blocks"].append({"stmts": [{"k": "assign", "place": copy.deepcopy(t["dest"]),
                                                 "rv": {"k": "aggregate", "agg": "adt", "path": "core::option::Option", "variant": 0, "vname": "None", "args": dty.get("args", []),
                                                        "is_enum": True, "ops": []}, "line": line}], "term": {"k": "goto", "target": t["target"]}})
                rec["blocks"].append({"stmts": [
                    {"k": "assign", "place": {"local": item, "proj": []},
                     "rv": {"k": "use", "op": {"k": "move", "place": {"local": nx, "proj": [{"k": "downcast", "variant": 1, "name": "Some"}, {"k": "field", "i": 0, "ty": item_ty}]}}}, "line": line},
                    {"k": "assign", "place": {"local": iref, "proj": []}, "rv": {"k": "ref", "mut": False, "place": {"local": item, "proj": []}}, "line": line},
                    {"k": "assign", "place": {"local": tup, "proj": []}, "rv": {"k": "aggregate", "agg": "tuple", "ops": [{"k": "move", "place": {"local": iref, "proj": []}}]}, "line": line},
                    {"k": "assign", "place": {"local": cr, "proj": []}, "rv": {"k": "ref", "mut": True, "place": {"local": fl, "proj": []}}, "line": line}],
                    "term": {"k": "call", "callee": "core::ops::FnMut::call_mut", "resolved": None, "cargs": [fty, {"k": "tuple", "elems": [aty]}], "rargs": [],
                             "args": [{"k": "move", "place": {"local": cr, "proj": []}}, {"k": "move", "place": {"local": tup, "proj": []}}], "dest": {"local": rr, "proj": []},
                             "target": C, "line": line}})
                rec["blocks"].append({"stmts": [],
                                      "term": {"k": "switch", "discr": {"k": "move", "place": {"local": rr, "proj": []}}, "dty": {"k": "bool"}, "arms": [[0, H]], "otherwise": E, "line": line}})
                rec["blocks"].append({"stmts": [{"k": "assign", "place": copy.deepcopy(t["dest"]),
                                                 "rv": {"k": "aggregate", "agg": "adt", "path": "core::option::Option", "variant": 1, "vname": "Some", "args": dty.get("args", []), "is_enum": True,
                                                        "ops": [{"k": "move", "place": {"local": item, "proj": []}}]}, "line": line}],
                                      "term": {"k": "goto", "target": t["target"]}})
                rec["blocks"].append({"stmts": [], "term": {"k": "unreachable"}})
                blk["term"] = {"k": "goto", "target": H}
                stats.setdefault(rec["path"], []).append("desugar:find")
                changed = True
                continue
        if c in ("core::bool::<impl bool>::then", "core::bool::<impl bool>::then_some") and len(t["args"]) == 2 and not t["dest"]["proj"]:
            # cond.then(f) / cond.then_some(v)  ->  if cond { Some(f()) } else { None }
            cnd, f_ = t["args"]
            dty = rec["locals"][t["dest"]["local"]]
            if not (dty.get("k") == "adt" and dty.get("args")):
                continue
            pay = dty["args"][0]
            line = t.get("line")
            nb = len(rec["blocks"])
            n = len(rec["locals"])
            rec["locals"].append(pay)
            if c.endswith("then_some"):
                rec["blocks"].append({"stmts": [{"k": "assign", "place": {"local": n, "proj": []}, "rv": {"k": "use", "op": copy.deepcopy(f_)}, "line": line}],
                                      "term": {"k": "goto", "target": nb + 1}})
            else:
                fty = rec["locals"][f_["place"]["local"]] if f_["k"] in ("move", "copy") and not f_["place"]["proj"] else None
                if not fty or fty.get("k") != "closure":
                    rec["locals"].pop()
                    continue
                unit = len(rec["locals"])
                rec["locals"].append({"k": "tuple", "elems": []})
                rec["blocks"].append({"stmts": [{"k": "assign", "place": {"local": unit, "proj": []}, "rv": {"k": "aggregate", "agg": "tuple", "ops": []}, "line": line}],
                                      "term": {"k": "call", "callee": "core::ops::FnOnce::call_once", "resolved": None, "cargs": [fty, {"k": "tuple", "elems": []}], "rargs": [],
                                               "args": [copy.deepcopy(f_), {"k": "move", "place": {"local": unit, "proj": []}}], "dest": {"local": n, "proj": []},
                                               "target": nb + 1, "line": line}})
            rec["blocks"].append({"stmts": [{"k": "assign", "place": copy.deepcopy(t["dest"]),
                                             "rv": {"k": "aggregate", "agg": "adt", "path": "core::option::Option", "variant": 1, "vname": "Some", "args": dty["args"], "is_enum": True,
                                                    "ops": [{"k": "move", "place": {"local": n, "proj": []}}]}, "line": line}],
                                  "term": {"k": "goto", "target": t["target"]}})
            rec["blocks"].append({"stmts": [{"k": "assign", "place": copy.deepcopy(t["dest"]),
                                             "rv": {"k": "aggregate", "agg": "adt", "path": "core::option::Option", "variant": 0, "vname": "None", "args": dty["args"], "is_enum": True, "ops": []},
                                             "line": line}],
                                  "term": {"k": "goto", "target": t["target"]}})
            blk["term"] = {"k": "switch", "discr": copy.deepcopy(cnd), "dty": {"k": "bool"}, "arms": [[0, nb + 2]], "otherwise": nb, "line": line}
            stats.setdefault(rec["path"], []).append("desugar:" + c.rsplit("::", 1)[1])
            changed = True
            continue
        if c == "core::option::Option::<T>::ok_or" and not t["dest"]["proj"] and len(t["args"]) == 2:
            preds = _preds(rec)
            B = t["target"]
            tb = rec["blocks"][B]["term"]
            if not (preds.get(B) == {bi} and not rec["blocks"][B]["stmts"] and tb["k"] == "call" and (tb.get("resolved") or tb.get("callee")) == TRY_BRANCH
                    and tb["args"] and tb["args"][0]["k"] == "move" and tb["args"][0]["place"] == t["dest"] and not tb["dest"]["proj"]):
                continue
            C = tb["target"]
            cb = rec["blocks"][C]
            tc = cb["term"]
            bl = tb["dest"]["local"]
            if not (preds.get(C) == {B} and len(cb["stmts"]) == 1 and cb["stmts"][0]["rv"]["k"] == "discr" and cb["stmts"][0]["rv"]["place"] == {"local": bl, "proj": []}
                    and tc["k"] == "switch"):
                continue
            arms = dict((v, tb_) for v, tb_ in tc["arms"])
            if set(arms) != {0, 1}:
                continue
            K, R = arms[0], arms[1]
            rb = rec["blocks"][R]
            tr = rb["term"]
            if not (preds.get(R) == {C} and tr["k"] == "call" and (tr.get("resolved") or tr.get("callee")) == FROM_RESIDUAL and tr["dest"] == {"local": 0, "proj": []}):
                continue
            # same error type: the ok_or error operand has the function's own error type
            e = t["args"][1]
            o = t["args"][0]
            if e["k"] not in ("move", "copy") or o["k"] not in ("move", "copy") or o["place"]["proj"]:
                continue
            ety = rec["locals"][e["place"]["local"]] if not e["place"]["proj"] else None
            rty = rec["locals"][0]
            if not (ety and rty.get("k") == "adt" and rty.get("path") == "core::result::Result" and len(rty.get("args", [])) == 2 and rty["args"][1] == ety):
                continue
            oty = rec["locals"][o["place"]["local"]]
            pty = oty["args"][0] if oty.get("k") == "adt" and oty.get("args") else {"k": "other"}
            ol = o["place"]["local"]
            n = len(rec["locals"])
            rec["locals"].append({"k": "int", "bits": 64, "name": "isize"})
            nb = len(rec["blocks"])
            line = t.get("line")
            # Some arm: branch-result local = Continue(payload); continue at K
            rec["blocks"].append({"stmts": [{"k": "assign", "place": {"local": bl, "proj": []},
                                             "rv": {"k": "aggregate", "agg": "adt", "path": "core::ops::ControlFlow", "variant": 0, "vname": "Continue", "args": [], "is_enum": True,
                                                    "ops": [{"k": "move", "place": {"local": ol, "proj": [{"k": "downcast", "variant": 1, "name": "Some"}, {"k": "field", "i": 0, "ty": pty}]}}]},
                                             "line": line}],
                                  "term": {"k": "goto", "target": K}})
            # None arm: return Err(e) and continue where from_residual continued
            rec["blocks"].append({"stmts": [{"k": "assign", "place": {"local": 0, "proj": []},
                                             "rv": {"k": "aggregate", "agg": "adt", "path": "core::result::Result", "variant": 1, "vname": "Err", "args": rty["args"], "is_enum": True,
                                                    "ops": [copy.deepcopy(e)]}, "line": line}],
                                  "term": {"k": "goto", "target": tr["target"]}})
            blk["stmts"] = list(blk["stmts"]) + [{"k": "assign", "place": {"local": n, "proj": []}, "rv": {"k": "discr", "place": {"local": ol, "proj": []}}, "line": line}]
            blk["term"] = {"k": "switch", "discr": {"k": "move", "place": {"local": n, "proj": []}}, "dty": {"k": "int", "bits": 64, "name": "isize"},
                           "arms": [[1, nb], [0, nb + 1]], "otherwise": nb + 2, "line": line}
            rec["blocks"].append({"stmts": [], "term": {"k": "unreachable"}})
            stats.setdefault(rec["path"], []).append("desugar:ok_or?")
            changed = True
    return changed


def _known_variant(rec, preds, P, y):
    ps = sorted(preds.get(P, ()))
    if len(ps) != 1:
        return None
    qb = rec["blocks"][ps[0]]
    t = qb["term"]
    if t["k"] != "switch" or t["discr"]["k"] not in ("move", "copy") or t["discr"]["place"]["proj"]:
        return None
    d = t["discr"]["place"]["local"]
    src = [st for st in qb["stmts"] if st["k"] == "assign" and st["place"] == {"local": d, "proj": []}]
    if len(src) != 1 or src[0]["rv"]["k"] != "discr" or src[0]["rv"]["place"] != {"local": y, "proj": []}:
        return None
    ks = [v for v, tb in t["arms"] if tb == P]
    if len(ks) != 1 or t["otherwise"] == P:
        return None
    # y keeps the value whose discriminant was read: no write to y after that read in the switch block, none in P
    after = qb["stmts"][qb["stmts"].index(src[0]) + 1:]
    if any(st["k"] != "assign" or st["place"]["local"] == y or (st["rv"]["k"] in ("ref", "rawptr") and st["rv"].get("mut") and st["rv"]["place"]["local"] == y)
           for st in after):
        return None
    if any(st["k"] == "assign" and (st["place"]["local"] == y or (st["rv"]["k"] in ("ref", "rawptr") and st["rv"].get("mut") and st["rv"]["place"]["local"] == y))
           for st in rec["blocks"][P]["stmts"]):
        return None
    return ks[0]


_ADT_DISCR = {}


def _arm_value(rv):
    """what `switch discr(x)` sees for x built by the aggregate rv: the variant's DISCRIMINANT, which differs from the variant index for
    core::cmp::Ordering (Less = -1 (0xff), Equal = 0, Greater = 1) and for crate enums with explicit discriminants"""
    v = rv.get("variant")
    path = rv.get("path")
    if path == "core::cmp::Ordering":
        return {0: 255, 1: 0, 2: 1}.get(v, v)
    m = _ADT_DISCR.get(path)
    if m is not None and v in m:
        return m[v]
    return v


def _fixed_variant(rec, y, depth=3):
    """the discriminant (switch-arm value) of local y when its only definition is an enum constructor (possibly moved through plain temporaries)"""
    d = _all_defs(rec, y)
    if len(d) != 1 or d[0][0] != "stmt" or d[0][3]["place"]["proj"]:
        return None
    rv = d[0][3]["rv"]
    if rv["k"] == "aggregate" and rv.get("is_enum") and isinstance(rv.get("variant"), int):
        return _arm_value(rv)
    if depth and rv["k"] == "use" and rv["op"]["k"] in ("move", "copy") and not rv["op"]["place"]["proj"]:
        return _fixed_variant(rec, rv["op"]["place"]["local"], depth - 1)
    return None


def _all_defs(rec, local):
    found = []
    for bi, blk in enumerate(rec["blocks"]):
        for si, st in enumerate(blk["stmts"]):
            if st["k"] == "assign" and st["place"]["local"] == local:
                found.append(("stmt", bi, si, st))
        t = blk["term"]
        if t["k"] == "call" and t["dest"]["local"] == local:
            found.append(("call", bi, None, t))
    return found


def fold_try(rec, stats):
    """`r?` where every definition of r is an in-place `Ok(..)` / `Err(..)` (the body of an inlined validation helper): the Try::branch call is
    replaced by its definition  match r { Ok(v) => Continue(v), Err(e) => Break(Err(e)) }  so that jump threading connects each arm of the
    helper with the caller's continuation, and a from_residual of that Break (same error type) becomes the plain `return Err(e)`."""
    changed = False
    for bi, blk in enumerate(rec["blocks"]):
        t = blk["term"]
        if t["k"] != "call" or (t.get("resolved") or t.get("callee")) != TRY_BRANCH or t.get("target") is None or t["dest"]["proj"]:
            continue
        a = t["args"][0]
        if a["k"] not in ("move", "copy") or a["place"]["proj"]:
            continue
        x = a["place"]["local"]
        xty = rec["locals"][x]
        defs = _all_defs(rec, x)
        def _agg(d):
            if d[0] != "stmt" or d[3]["place"]["proj"]:
                return False
            rv = d[3]["rv"]
            if rv["k"] == "aggregate":
                return rv.get("vname") in ("Ok", "Err")
            # `r = move y` with y built once as Ok(..) / Err(..) (the eager default of map_or / unwrap_or)
            return rv["k"] == "use" and rv["op"]["k"] in ("move", "copy") and not rv["op"]["place"]["proj"] \
                and _fixed_variant(rec, rv["op"]["place"]["local"]) is not None

        def _resid(d):
            # the inlined helper's own `?`: its early return is `x = from_residual(..)`, always an Err
            return d[0] == "call" and not d[3]["dest"]["proj"] and _is_result_residual(d[3].get("resolved") or d[3].get("callee") or "")
        if not defs or not any(_agg(d) for d in defs) or not all(_agg(d) or _resid(d) for d in defs):
            continue
        if not (xty.get("k") == "adt" and len(xty.get("args") or []) == 2):
            continue
        okty, errty = xty["args"]
        dty = rec["locals"][t["dest"]["local"]]
        line = t.get("line")
        n = len(rec["locals"])
        isz = {"k": "int", "bits": 64, "name": "isize"}
        resid_ty = {"k": "adt", "path": "core::result::Result", "args": [{"k": "adt", "path": "core::convert::Infallible", "args": [], "s": "core::convert::Infallible"}, errty],
                    "s": "core::result::Result<core::convert::Infallible, E>"}
        rec["locals"].extend([isz, resid_ty])
        dx, tmp = n, n + 1
        nb = len(rec["blocks"])
        blk["stmts"] = list(blk["stmts"]) + [{"k": "assign", "place": {"local": dx, "proj": []}, "rv": {"k": "discr", "place": {"local": x, "proj": []}}, "line": line}]
        blk["term"] = {"k": "switch", "discr": {"k": "move", "place": {"local": dx, "proj": []}}, "dty": isz, "arms": [[0, nb], [1, nb + 1]], "otherwise": nb + 2, "line": line}
        rec["blocks"].append({"stmts": [{"k": "assign", "place": copy.deepcopy(t["dest"]),
                                         "rv": {"k": "aggregate", "agg": "adt", "path": "core::ops::ControlFlow", "variant": 0, "vname": "Continue", "args": dty.get("args", []), "is_enum": True,
                                                "ops": [{"k": "move", "place": {"local": x, "proj": [{"k": "downcast", "variant": 0, "name": "Ok"}, {"k": "field", "i": 0, "ty": okty}]}}]},
                                         "line": line}], "term": {"k": "goto", "target": t["target"]}})
        rec["blocks"].append({"stmts": [{"k": "assign", "place": {"local": tmp, "proj": []},
                                         "rv": {"k": "aggregate", "agg": "adt", "path": "core::result::Result", "variant": 1, "vname": "Err", "args": resid_ty["args"], "is_enum": True,
                                                "ops": [{"k": "move", "place": {"local": x, "proj": [{"k": "downcast", "variant": 1, "name": "Err"}, {"k": "field", "i": 0, "ty": errty}]}}]},
                                         "line": line},
                                        {"k": "assign", "place": copy.deepcopy(t["dest"]),
                                         "rv": {"k": "aggregate", "agg": "adt", "path": "core::ops::ControlFlow", "variant": 1, "vname": "Break", "args": dty.get("args", []), "is_enum": True,
                                                "ops": [{"k": "move", "place": {"local": tmp, "proj": []}}]}, "line": line}],
                              "term": {"k": "goto", "target": t["target"]}})
        rec["blocks"].append({"stmts": [], "term": {"k": "unreachable"}})
        rec.setdefault("_folded_try", []).append((t["dest"]["local"], tmp, x, errty))
        stats.setdefault(rec["path"], []).append("fold:try")
        changed = True
    return changed


def _is_result_residual(c):
    """from_residual of a RESULT (always an Err, variant 1); Option's from_residual yields None (variant 0) and is not meant here"""
    return c.endswith("::from_residual") and "core::result::Result" in c and "option::Option<T> as" not in c


def fold_from_residual(rec, stats):
    """from_residual(Break payload) of a `?` folded by fold_try, with the function's own error type:  _0 = Err(e)."""
    changed = False
    folded = rec.get("_folded_try") or []
    if not folded:
        return False
    for bi, blk in enumerate(rec["blocks"]):
        t = blk["term"]
        if t["k"] != "call" or not (t.get("resolved") or t.get("callee") or "").endswith("FromResidual<core::result::Result<core::convert::Infallible, E>>>::from_residual"):
            continue
        a = t["args"][0]
        if a["k"] != "move" or a["place"]["proj"] or t.get("target") is None:
            continue
        # r <- move .. <- move (d as Break).0
        cur = a["place"]["local"]
        src = None
        for _ in range(4):
            d = _single_def(rec, cur)
            if d is None or d[0] != "stmt" or d[3]["rv"]["k"] != "use" or d[3]["rv"]["op"]["k"] not in ("move", "copy"):
                break
            pl = d[3]["rv"]["op"]["place"]
            if not pl["proj"]:
                cur = pl["local"]
                continue
            if [x_["k"] for x_ in pl["proj"]] == ["downcast", "field"] and pl["proj"][0].get("variant") == 1:
                src = pl["local"]
            break
        hit = [f_ for f_ in folded if f_[0] == src]
        if not hit:
            continue
        dlocal, tmp, x, errty = hit[0]
        rty = rec["locals"][t["dest"]["local"]] if not t["dest"]["proj"] else None
        if not (rty and rty.get("k") == "adt" and len(rty.get("args") or []) == 2 and rty["args"][1] == errty):
            continue      # a converting `?` (From<E> for F): left alone
        line = t.get("line")
        blk["stmts"] = list(blk["stmts"]) + [{"k": "assign", "place": copy.deepcopy(t["dest"]),
                                              "rv": {"k": "aggregate", "agg": "adt", "path": "core::result::Result", "variant": 1, "vname": "Err", "args": rty["args"], "is_enum": True,
                                                     "ops": [{"k": "copy", "place": {"local": x, "proj": [{"k": "downcast", "variant": 1, "name": "Err"}, {"k": "field", "i": 0, "ty": errty}]}}]},
                                              "line": line}]
        blk["term"] = {"k": "goto", "target": t["target"]}
        stats.setdefault(rec["path"], []).append("fold:from_residual")
        changed = True
    return changed


def thread_jumps(rec, stats):
    """Jump threading for desugared combinator chains:  P: `x = Variant_k(..); goto J`   J: `..; d = discr(x); switch d`
    becomes  P: `x = Variant_k(..); <J's statements>; goto J.arm[k]`.  Only blocks created by this pass' desugaring contain such
    shapes on today's tree (rustc's own MIR has already been simplified), so this is the identity there."""
    changed = False
    # a goto into an empty block that only jumps on: jump there directly (left behind by inlined closures' return blocks)
    for pb in rec["blocks"]:
        if pb["term"]["k"] == "goto":
            for _ in range(4):
                jb = rec["blocks"][pb["term"]["target"]]
                if not jb["stmts"] and jb["term"]["k"] == "goto" and jb is not pb and jb["term"]["target"] != pb["term"]["target"] and not jb.get("cleanup"):
                    pb["term"] = {"k": "goto", "target": jb["term"]["target"]}
                    changed = True
                else:
                    break
    preds = _preds(rec)
    for J, jb in enumerate(rec["blocks"]):
        t = jb["term"]
        if t["k"] != "switch" or t["discr"]["k"] not in ("move", "copy") or t["discr"]["place"]["proj"]:
            continue
        d = t["discr"]["place"]["local"]
        x = None
        for st in jb["stmts"]:
            if st["k"] == "assign" and st["place"] == {"local": d, "proj": []} and st["rv"]["k"] == "discr" and not st["rv"]["place"]["proj"]:
                x = st["rv"]["place"]["local"]
        if x is None:
            continue
        # J must not write x itself
        if any(st["k"] == "assign" and st["place"]["local"] == x for st in jb["stmts"]):
            # .. unless it builds x right there: `x = Variant_k(..); ..; d = discr(x); switch d` is a jump to arm k
            ws = [i for i, st in enumerate(jb["stmts"]) if st["k"] == "assign" and st["place"]["local"] == x]
            ds = [i for i, st in enumerate(jb["stmts"]) if st["k"] == "assign" and st["place"] == {"local": d, "proj": []}]
            w = jb["stmts"][ws[-1]]
            if len(ds) == 1 and ws[-1] < ds[0] and not w["place"]["proj"] and w["rv"]["k"] == "aggregate" and w["rv"].get("is_enum") \
                    and isinstance(w["rv"].get("variant"), int) \
                    and not any(st["k"] == "assign" and st["rv"]["k"] in ("ref", "rawptr") and st["rv"].get("mut") and st["rv"]["place"]["local"] == x
                                for st in jb["stmts"][ws[-1]:ds[0]]):
                k = _arm_value(w["rv"])
                tgt = next((tb for v, tb in t["arms"] if v == k), t["otherwise"])
                jb["term"] = {"k": "goto", "target": tgt}
                stats.setdefault(rec["path"], []).append("thread:built-here")
                changed = True
            continue
        for P in sorted(preds.get(J, ())):
            pb = rec["blocks"][P]
            if pb["term"]["k"] != "goto" or P == J:
                continue
            k = None
            for st in pb["stmts"]:
                if st["k"] == "assign" and st["place"]["local"] == x:
                    if not st["place"]["proj"] and st["rv"]["k"] == "aggregate" and st["rv"].get("is_enum") and isinstance(st["rv"].get("variant"), int):
                        k = _arm_value(st["rv"])
                    elif not st["place"]["proj"] and st["rv"]["k"] == "use" and st["rv"]["op"]["k"] in ("move", "copy") and not st["rv"]["op"]["place"]["proj"]:
                        # x = move y, and the only way into P is the arm `discr(y) == k` of a switch
                        k = _known_variant(rec, preds, P, st["rv"]["op"]["place"]["local"])
                        if k is None:
                            k = _fixed_variant(rec, st["rv"]["op"]["place"]["local"])
                    else:
                        k = None
            if k is None:
                continue
            tgt = None
            for v, tb in t["arms"]:
                if v == k:
                    tgt = tb
            if tgt is None:
                tgt = t["otherwise"]
            pb["stmts"] = list(pb["stmts"]) + copy.deepcopy(jb["stmts"])
            pb["term"] = {"k": "goto", "target": tgt}
            stats.setdefault(rec["path"], []).append("thread")
            changed = True
    return changed


def simplify_drops(rec, stats):
    """What a generic helper leaves behind once it is instantiated at a primitive type: `drop(x)` of a value that has no drop glue is a plain
    jump, and a switch on a drop flag (a bool that is only ever assigned literals) whose arms meet again without doing anything is a jump too."""
    changed = False
    nodrop = lambda ty: isinstance(ty, dict) and ty.get("k") in ("int", "uint", "float", "bool", "char", "ref", "rawptr", "never")
    for blk in rec["blocks"]:
        t = blk["term"]
        if t["k"] == "drop" and not blk.get("cleanup") and t.get("target") is not None:
            pl = t.get("place") or {}
            if isinstance(pl, dict) and "local" in pl and not pl.get("proj") and nodrop(rec["locals"][pl["local"]]):
                blk["term"] = {"k": "goto", "target": t["target"]}
                changed = True

    def land(b):
        for _ in range(6):
            jb = rec["blocks"][b]
            if not jb["stmts"] and jb["term"]["k"] == "goto" and not jb.get("cleanup"):
                b = jb["term"]["target"]
            else:
                break
        return b
    flags = {}
    for blk in rec["blocks"]:
        for st in blk["stmts"]:
            if st["k"] == "assign" and not st["place"]["proj"]:
                l = st["place"]["local"]
                lit = st["rv"]["k"] == "use" and st["rv"]["op"].get("k") == "const" and "val" in st["rv"]["op"]
                flags[l] = flags.get(l, True) and lit
        t = blk["term"]
        if t["k"] == "call" and not t["dest"]["proj"]:
            flags[t["dest"]["local"]] = False
    for blk in rec["blocks"]:
        t = blk["term"]
        if t["k"] == "switch" and not blk.get("cleanup") and t["discr"].get("k") in ("move", "copy") and not t["discr"]["place"]["proj"]:
            l = t["discr"]["place"]["local"]
            if flags.get(l) and rec["locals"][l].get("k") == "bool":
                tg = {land(tb) for v, tb in t["arms"]} | {land(t["otherwise"])}
                if len(tg) == 1:
                    blk["term"] = {"k": "goto", "target": tg.pop()}
                    changed = True
    if changed:
        stats.setdefault(rec["path"], []).append("simplify:drops")
    return changed


def thread_shapes(rec, stats, budget=40):
    """Forward propagation of the shape of values built in place (Ok(Some(e)), Continue(..)): from a block that ends in `goto`, the straight-line
    successors are executed symbolically; a `switch discr(x)` whose x has a known variant on this path is resolved, and the statements on the way
    are appended to the block (tail duplication), so that the path no longer passes through merge points where the shape is forgotten.
    Only blocks created by this pre-pass (index >= rec['_orig_blocks']) and their continuation are touched."""
    changed = False
    nb0 = rec.get("_orig_blocks", len(rec["blocks"]))

    def shape_of_operand(env, o):
        if o.get("k") not in ("move", "copy"):
            return None
        sh = env.get(o["place"]["local"])
        for pr in o["place"]["proj"]:
            if sh is None:
                return None
            if pr["k"] == "downcast":
                if sh[0] != "agg" or sh[1] != pr.get("variant"):
                    return None
            elif pr["k"] == "field":
                if sh[0] != "agg" or pr["i"] >= len(sh[2]):
                    return None
                sh = sh[2][pr["i"]]
            else:
                return None
        return sh

    # a `?`-style early return of an inlined helper (`x = from_residual(..)`) always yields an Err: seed that shape on a fresh landing block
    seeds = {}
    for P, pb in enumerate(list(rec["blocks"])):
        t = pb["term"]
        if t["k"] == "call" and t.get("target") is not None and not t["dest"]["proj"] and t["dest"]["local"] != 0 \
                and _is_result_residual(t.get("resolved") or t.get("callee") or "") and not pb.get("cleanup") and not t.get("_landing"):
            ni = len(rec["blocks"])
            rec["blocks"].append({"stmts": [], "term": {"k": "goto", "target": t["target"]}})
            t["target"] = ni
            t["_landing"] = True
            seeds[ni] = {t["dest"]["local"]: ("agg", 1, [None])}
    for P, pb in enumerate(rec["blocks"]):
        if budget <= 0:
            break
        if pb["term"]["k"] != "goto" or pb.get("cleanup"):
            continue
        # start: shapes established by P's own statements
        env = dict(seeds.get(P, {}))
        def run(stmts):
            for st in stmts:
                if st["k"] != "assign":
                    continue
                pl, rv = st["place"], st["rv"]
                if pl["proj"]:
                    env.pop(pl["local"], None)
                    continue
                if rv["k"] == "aggregate" and rv.get("agg") == "adt" and rv.get("is_enum") and isinstance(rv.get("variant"), int):
                    env[pl["local"]] = ("agg", rv["variant"], [shape_of_operand(env, o) for o in rv.get("ops", [])], _arm_value(rv))
                elif rv["k"] == "use":
                    sh = shape_of_operand(env, rv["op"])
                    if sh is not None:
                        env[pl["local"]] = sh
                    else:
                        env.pop(pl["local"], None)
                elif rv["k"] in ("ref", "rawptr") and rv.get("mut"):
                    env.pop(rv["place"]["local"], None)
                    env.pop(pl["local"], None)
                else:
                    env.pop(pl["local"], None)
        run(pb["stmts"])
        if not any(v and v[0] == "agg" for v in env.values()):
            continue
        appended = []
        tgt = pb["term"]["target"]
        visited = set()
        progressed = False
        for _ in range(10):
            if tgt in visited or tgt == P:
                break
            visited.add(tgt)
            jb = rec["blocks"][tgt]
            if jb.get("cleanup"):
                break
            t = jb["term"]
            if t["k"] == "goto":
                # only worth continuing if something ahead may be resolved; duplicate J's statements
                save_env = dict(env)
                run(jb["stmts"])
                appended.append(copy.deepcopy(jb["stmts"]))
                tgt = t["target"]
                continue
            if t["k"] == "switch" and t["discr"]["k"] in ("move", "copy") and not t["discr"]["place"]["proj"]:
                run(jb["stmts"])
                d = t["discr"]["place"]["local"]
                src = [st for st in jb["stmts"] if st["k"] == "assign" and st["place"] == {"local": d, "proj": []}]
                k = None
                if len(src) == 1 and src[0]["rv"]["k"] == "discr":
                    sh = shape_of_operand(env, {"k": "copy", "place": src[0]["rv"]["place"]})
                    if sh is not None and sh[0] == "agg":
                        k = sh[3] if len(sh) > 3 else sh[1]
                if k is None:
                    break
                appended.append(copy.deepcopy(jb["stmts"]))
                nxt = None
                for v_, tb in t["arms"]:
                    if v_ == k:
                        nxt = tb
                if nxt is None:
                    nxt = t["otherwise"]
                tgt = nxt
                progressed = True
                # commit what has been gathered so far
                for stl in appended:
                    pb["stmts"] = list(pb["stmts"]) + stl
                appended = []
                pb["term"] = {"k": "goto", "target": tgt}
                changed = True
                budget -= 1
                stats.setdefault(rec["path"], []).append("thread:shape")
                continue
            break
        if progressed and appended and sum(len(x) for x in appended) <= 6:
            # the straight-line tail after the last resolved switch (e.g. `_0 = (r as Ok).0; goto return`): keep it on this path too, so the
            # value returned is the one built on this path and not a merge of all paths
            for stl in appended:
                pb["stmts"] = list(pb["stmts"]) + stl
            pb["term"] = {"k": "goto", "target": tgt}
    return changed


def dup_const_joins(rec, stats):
    """`_0 = Wrap(match e { A => c1, B => c2, .. })`: the wrapping statement sits in a join block fed by arms that only store a constant.
    The join block's statements are copied into each arm (tail duplication), which gives the per-arm shape `A => Wrap(c1)` that rustc emits for
    the hand-written `match e { A => Wrap(c1), .. }`."""
    preds = _preds(rec)
    changed = False
    for J, jb in enumerate(rec["blocks"]):
        if jb.get("cleanup") or jb["term"]["k"] not in ("goto", "return") or not (1 <= len(jb["stmts"]) <= 2):
            continue
        if not all(st["k"] == "assign" for st in jb["stmts"]):
            continue
        last = jb["stmts"][-1]
        if last["place"] != {"local": 0, "proj": []} or last["rv"]["k"] != "aggregate":
            continue
        ops = [o for o in last["rv"].get("ops", []) if o.get("k") in ("move", "copy") and not o["place"]["proj"]]
        if len(ops) != 1:
            continue
        x = ops[0]["place"]["local"]
        ps = sorted(preds.get(J, ()))
        if len(ps) < 2:
            continue
        ok = True
        for P in ps:
            pb = rec["blocks"][P]
            if pb["term"]["k"] != "goto" or pb.get("cleanup") or P == J:
                ok = False
                break
            defs = [st for st in pb["stmts"] if st["k"] == "assign" and st["place"] == {"local": x, "proj": []}]
            if len(defs) != 1 or defs[0]["rv"]["k"] != "use" or defs[0]["rv"]["op"].get("k") != "const":
                ok = False
                break
        if not ok:
            continue
        for P in ps:
            pb = rec["blocks"][P]
            pb["stmts"] = list(pb["stmts"]) + copy.deepcopy(jb["stmts"])
            pb["term"] = copy.deepcopy(jb["term"])
        stats.setdefault(rec["path"], []).append("dup:const-join")
        changed = True
    return changed


def forward_return_temp(rec, stats):
    """`tmp = Ok(..) | Err(..)` on several paths, later `_0 = move tmp` as the only use of tmp:  build the result in `_0` directly.
    (A pure renaming of a local that is otherwise dead; it lets rules that look for in-place `_0 = Err(..)` see through
    `let result = ..; cleanup(); result`.)"""
    moves = []
    for bi, blk in enumerate(rec["blocks"]):
        for si, st in enumerate(blk["stmts"]):
            if st["k"] == "assign" and st["place"] == {"local": 0, "proj": []} and st["rv"]["k"] == "use" and st["rv"]["op"]["k"] == "move" \
                    and not st["rv"]["op"]["place"]["proj"]:
                moves.append((bi, si, st["rv"]["op"]["place"]["local"]))
    if len(moves) != 1:
        return False
    bi, si, tmp = moves[0]
    if tmp == 0 or tmp <= rec.get("argc", 0) or rec["locals"][tmp] != rec["locals"][0]:
        return False
    # every other assignment of _0?  none allowed
    writes0 = 0
    defs = []
    uses = 0

    def count_uses(x):
        n = 0
        if isinstance(x, dict):
            if "local" in x and "proj" in x and isinstance(x["proj"], list):
                if x["local"] == tmp:
                    n += 1
                for pr in x["proj"]:
                    if pr.get("k") == "index" and pr.get("local") == tmp:
                        n += 1
                return n
            for v in x.values():
                n += count_uses(v)
        elif isinstance(x, list):
            for v in x:
                n += count_uses(v)
        return n
    for b2, blk in enumerate(rec["blocks"]):
        for s2, st in enumerate(blk["stmts"]):
            if st["k"] != "assign":
                uses += count_uses(st)
                continue
            if st["place"]["local"] == 0:
                writes0 += 1
            if st["place"] == {"local": tmp, "proj": []}:
                if not (st["rv"]["k"] == "aggregate" and st["rv"].get("vname") in ("Ok", "Err", "Some", "None")):
                    return False
                defs.append((b2, s2))
                uses += count_uses(st["rv"])
            else:
                uses += count_uses(st)
        t = blk["term"]
        if t["k"] == "call" and t["dest"]["local"] == tmp:
            return False
        uses += count_uses(t)
    if len(defs) < 2 or uses != 1:
        return False
    for b2, s2 in defs:
        rec["blocks"][b2]["stmts"][s2] = dict(rec["blocks"][b2]["stmts"][s2], place={"local": 0, "proj": []})
    del rec["blocks"][bi]["stmts"][si]
    stats.setdefault(rec["path"], []).append("forward-return")
    return True


# ---------------------------------------------------------------- named aggregate constants (e.g. `const WINDOW: Range<usize> = 3..1026`)
def eval_const_body(cb):
    """Evaluate a tiny constant body (integer arithmetic, tuples, one aggregate) -> aggregate rvalue json with literal operands, or None."""
    env = {}

    def operand(o):
        if o["k"] == "const":
            return ("int", o["val"], o["ty"]) if "val" in o else None
        if o["k"] in ("copy", "move"):
            v = env.get(o["place"]["local"])
            for pr in o["place"]["proj"]:
                if v is None:
                    return None
                if pr["k"] == "field" and v[0] == "tuple":
                    v = v[1][pr["i"]]
                else:
                    return None
            return v
        return None
    b = 0
    for _ in range(16):
        blk = cb["blocks"][b]
        for st in blk["stmts"]:
            if st["k"] != "assign" or st["place"]["proj"]:
                continue
            rv = st["rv"]
            val = None
            if rv["k"] == "use":
                val = operand(rv["op"])
            elif rv["k"] == "binop":
                x, y = operand(rv["a"]), operand(rv["b"])
                if x and y and x[0] == "int" and y[0] == "int":
                    op = rv["op"]
                    base = op[:-12] if op.endswith("WithOverflow") else op
                    r = {"Add": x[1] + y[1], "Sub": x[1] - y[1], "Mul": x[1] * y[1]}.get(base)
                    if r is not None:
                        bits = x[2].get("bits", 64)
                        ov = not (0 <= r < (1 << bits)) if x[2].get("k") == "uint" else not (-(1 << (bits - 1)) <= r < (1 << (bits - 1)))
                        val = ("tuple", [("int", r, x[2]), ("int", int(ov), {"k": "bool"})]) if op.endswith("WithOverflow") else ("int", r, x[2])
            elif rv["k"] == "aggregate":
                ops = [operand(o) for o in rv["ops"]]
                if all(o is not None and o[0] == "int" for o in ops):
                    val = ("agg", rv, ops)
            env[st["place"]["local"]] = val
        t = blk["term"]
        if t["k"] == "goto":
            b = t["target"]
        elif t["k"] == "assert":
            c = operand(t["cond"])
            if not c or c[0] != "int" or bool(c[1]) != bool(t["expected"]):
                return None
            b = t["target"]
        elif t["k"] == "return":
            v = env.get(0)
            if v and v[0] == "agg":
                rv = copy.deepcopy(v[1])
                rv["ops"] = [{"k": "const", "ty": o[2], "bits": o[1], "val": o[1], "size": 8} for o in v[2]]
                return rv
            return None
        else:
            return None
    return None


def materialise_promoted_scalars(rec, prog, stats):
    """`x = const &promoted` where the promoted body is `_1 = <scalar literal>; _0 = &_1` (rustc's promotion of `&0.0`, `&5` ..):
    the literal is put in a fresh local and x borrows that local, so that `*x` reads as the literal."""
    changed = False
    for blk in rec["blocks"]:
        new_stmts = []
        for st in blk["stmts"]:
            if st.get("k") == "assign" and st["rv"].get("k") == "use" and st["rv"]["op"].get("k") == "const" and "val" not in st["rv"]["op"]:
                c = st["rv"]["op"]
                cb = prog.promoted.get(c.get("s")) if getattr(prog, "promoted", None) else None
                if cb and len(cb["blocks"]) == 1 and cb["blocks"][0]["term"]["k"] == "return":
                    sts = [x for x in cb["blocks"][0]["stmts"] if x.get("k") == "assign"]
                    if len(sts) == 2 and sts[0]["rv"].get("k") == "use" and sts[0]["rv"]["op"].get("k") == "const" and "val" in sts[0]["rv"]["op"] \
                            and not sts[0]["place"]["proj"] and sts[1]["place"] == {"local": 0, "proj": []} and sts[1]["rv"].get("k") == "ref" \
                            and sts[1]["rv"]["place"] == {"local": sts[0]["place"]["local"], "proj": []} and not sts[1]["rv"].get("mut") \
                            and sts[0]["rv"]["op"]["ty"].get("k") in ("float", "int", "uint", "bool", "char"):
                        n = len(rec["locals"])
                        rec["locals"].append(sts[0]["rv"]["op"]["ty"])
                        new_stmts.append({"k": "assign", "place": {"local": n, "proj": []}, "rv": copy.deepcopy(sts[0]["rv"]), "line": st.get("line")})
                        st = dict(st)
                        st["rv"] = {"k": "ref", "mut": False, "place": {"local": n, "proj": []}}
                        stats.setdefault(rec["path"], []).append("const:promoted-scalar")
                        changed = True
            new_stmts.append(st)
        blk["stmts"] = new_stmts
    return changed


def materialise_consts(rec, prog, stats):
    """An operand that names an aggregate constant becomes a local built in place just before its use."""
    changed = False
    cache = {}

    def find(x, out):
        if isinstance(x, dict):
            if x.get("k") == "const" and "val" not in x and x.get("s") in prog.constbodies:
                out.append(x)
                return
            for v in x.values():
                find(v, out)
        elif isinstance(x, list):
            for v in x:
                find(v, out)
    for blk in rec["blocks"]:
        new_stmts = []
        for st in blk["stmts"]:
            found = []
            find(st, found)
            for c in found:
                rv = cache.get(c["s"])
                if rv is None:
                    rv = cache[c["s"]] = eval_const_body(prog.constbodies[c["s"]]) or False
                if rv:
                    n = len(rec["locals"])
                    rec["locals"].append(c["ty"])
                    new_stmts.append({"k": "assign", "place": {"local": n, "proj": []}, "rv": copy.deepcopy(rv), "line": st.get("line")})
                    name = c["s"]
                    c.clear()
                    c.update({"k": "move", "place": {"local": n, "proj": []}})
                    stats.setdefault(rec["path"], []).append("const:" + name)
                    changed = True
            new_stmts.append(st)
        found = []
        find(blk["term"], found)
        for c in found:
            rv = cache.get(c["s"])
            if rv is None:
                rv = cache[c["s"]] = eval_const_body(prog.constbodies[c["s"]]) or False
            if rv:
                n = len(rec["locals"])
                rec["locals"].append(c["ty"])
                new_stmts.append({"k": "assign", "place": {"local": n, "proj": []}, "rv": copy.deepcopy(rv), "line": blk["term"].get("line")})
                name = c["s"]
                c.clear()
                c.update({"k": "move", "place": {"local": n, "proj": []}})
                stats.setdefault(rec["path"], []).append("const:" + name)
                changed = True
        blk["stmts"] = new_stmts
    return changed


def apply(prog):
    """Inline helper calls in every function of the program (in place).  Returns {caller: [inlined callees]}."""
    from facts import Fn
    vocab = load_vocabulary()
    recs = {p: f.rec for p, f in prog.fns.items()}
    _ADT_DISCR.clear()
    for ap, adt in (prog.adts or {}).items():
        try:
            m = {int(v.get("idx", i)): int(v["discr"]) for i, v in enumerate(adt.get("variants", [])) if v.get("discr") is not None}
        except (TypeError, ValueError):
            m = {}
        if any(k != v for k, v in m.items()):
            _ADT_DISCR[ap] = m
    helpers = {p for p in recs if is_helper(p, vocab)}
    stats = {}
    touched = set()
    if prog.constbodies:
        named = {k for k in prog.constbodies if not k.endswith("::_")}
        if named:
            for p, rec in recs.items():
                if any(('"s": "%s"' % k) in json.dumps(rec["blocks"]) for k in named) if len(named) <= 8 else True:
                    if materialise_consts(rec, prog, stats):
                        touched.add(p)
    for p, rec in recs.items():
        if lower_int_conversions(rec, stats):
            touched.add(p)
        if lower_capacity(rec, recs, stats):
            touched.add(p)
    for p, rec in recs.items():
        for _ in range(6):
            if not (desugar(rec, prog, stats) | desugar_enumerate_over_adaptor(rec, prog, stats) | desugar_adaptor_next(rec, prog, stats) | desugar_repeat_with_take(rec, prog, stats)):
                break
            touched.add(p)
        rec.pop("_expand_filter", None)
    depth_of = {}
    _CALL_SITES.clear()
    for p, rec in recs.items():
        for blk in rec["blocks"]:
            t_ = blk["term"]
            if t_["k"] == "call":
                c_ = t_.get("resolved") or t_.get("callee")
                if c_ in recs:
                    _CALL_SITES[c_] = _CALL_SITES.get(c_, 0) + 1
    for p, rec in recs.items():
        for _ in range(MAX_DEPTH + 1):
            before = len(rec["blocks"])
            if not inline_once(rec, recs, vocab, depth_of, stats):
                break
            touched.add(p)
    if any("desugar:partial_cmp" in v for v in stats.values()):
        # comparisons against a promoted `&0.0`: let `*ref` read as the literal (only where such a comparison was expanded)
        for p in list(touched):
            materialise_promoted_scalars(recs[p], prog, stats)
    for p, rec in recs.items():
        if dup_const_joins(rec, stats):
            touched.add(p)
    for p in list(touched):
        reresolve(recs[p], stats)
        for _ in range(3):
            if not simplify_drops(recs[p], stats):
                break
        fold_try(recs[p], stats)
        for _ in range(6):
            if not thread_jumps(recs[p], stats):
                break
        if any(x.startswith(("fold:try", "desugar:")) for x in stats.get(p, [])) or any(x in recs for x in stats.get(p, [])):
            for _ in range(3):
                if not thread_shapes(recs[p], stats, budget=600):
                    break
        fold_from_residual(recs[p], stats)
        recs[p].pop("_folded_try", None)
        forward_return_temp(recs[p], stats)
    for p in touched:
        prog.fns[p] = Fn(recs[p])
    prog.inlined = stats
    prog.helpers = helpers
    return stats


def _has_closure_calls(recs):
    return False
