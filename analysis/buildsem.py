"""Abstract interpretation of MessageBuilder::build_message against the frame-shape / buffer-reuse specification (C09, C12).

Same domains as bitsem.py.  The unknown Q of the affine domain is the payload length in bytes (data_len).  The builder's
`has_run` flag, the outcome of `Message::number`, of every `put` / `encode` call and the message variant are unknown
and fork; the bit cursor after the encoder is 8*(Q-1)+s and forks on s in 1..=8 when it is first read, so that
`(offset-1)/8+1` is the affine value Q.  Encoders and `put` are uninterpreted writers of the window data[3..1026]
(their own obligations are B-sem, R-width, ...).  The buffer is a map from byte index to bit vectors; a wipe is
interpreted like any other code (loop or `fill`).  At every `Ok` return:

  * the frame is data[.. Q+6]; data[1] = (Q >> 8) as u8 and data[2] = Q as u8 (six reserved bits zero); data[0] is never written;
  * data[Q+3 .. Q+6] are bits 23..16, 15..8, 7..0 of CRC(data[0 .. Q+3]) and no byte below Q+3 is stored after the digest;
  * no byte outside {1, 2} u window u {Q+3..Q+5} is stored after the wipe;
  * if the builder may have been used before (has_run), every byte of data[1..1029) was zeroed before the assembler
    was created - so the frame does not depend on the previous build; has_run is true afterwards on every path
    (also on the error paths);
and an `Err` for a message without a number leaves the buffer unwritten (apart from the wipe).
"""
import bitsem
from bitsem import (Interp, State, BV, Lin, Ref, Adt, Tup, Opaque, Undecided, Panic, bf_atom, bv_const, lin_parts, mklin, add, sub, lin_range, UNIT)
from framesem import BPred, CrcObj

BUILD = "msg::message::MessageBuilder::build_message"
DATA_LEN = 1029


class ZipObj(object):
    """a buffer iterator zipped with a literal array"""

    def __init__(self, a, b):
        self.a, self.b, self.pos = a, b, 0

    def copy_val(self, memo, cp):
        n = ZipObj(cp(self.a, memo), self.b if isinstance(self.b, StepSeq) else list(self.b))
        n.pos = self.pos
        return n


class StepSeq(object):
    """start, start + step, start + 2 * step, ..  (`(a..).step_by(n)`): an unbounded sequence of integers"""

    def __init__(self, start, step):
        self.start, self.step = start, step

    def __len__(self):
        return 1 << 40

    def __getitem__(self, i):
        return self.start + i * self.step


class Asm(object):
    def __init__(self, lo, hi, offset):
        self.lo, self.hi, self.offset = lo, hi, offset     # offset: int | None (unknown after an encoder ran)


class Choice(object):
    """an unknown finite choice made when first needed: ('name', options)"""

    def __init__(self, name, options):
        self.name, self.options = name, options


class BState(State):
    def __init__(self):
        State.__init__(self)
        self.seq = 0
        self.stores = []         # (seq, key, value is zero?)
        self.digest_seq = None
        self.asm_seq = None      # store counter when Assembler::new ran
        self.window_written = False
        self.choices = {}
        self.s = None


def q_bits(w):
    return BV([bf_atom(("Q", k)) if k < 10 else 0 for k in range(w)], False)


def is_q_bits(v):
    return isinstance(v, BV) and all(v.bits[k] == bf_atom(("Q", k)) for k in range(min(10, v.w))) and all(b == 0 for b in v.bits[10:])


class BuildInterp(Interp):
    def __init__(self, prog, f, i_data, i_run):
        Interp.__init__(self, prog, f, "build", 0, 0, 64)
        self.i_data, self.i_run = i_data, i_run
        self.pending = []        # forks requested from inside call(): list of (choice name, options)

    # ---- the buffer: (*self).data  ==  slice [0, 1029)
    def data_loc(self, loc):
        return loc[0] == "self" and tuple(loc[1]) == (self.i_data,)

    def index_loc(self, st, loc, iv):
        if self.data_loc(loc):
            loc = ("slice", 0, DATA_LEN)
        return Interp.index_loc(self, st, loc, self.to_int(iv))

    def _get(self, st, loc):
        if self.data_loc(loc):
            return ("slice", 0, DATA_LEN)
        if loc[0] == "msg":
            return Opaque("message", loc[1])
        return Interp._get(self, st, loc)

    def in_bounds(self, st, idx, end=None):
        return Interp.in_bounds(self, st, idx, DATA_LEN if end is None else end)

    def read_byte(self, st, idx):
        if self.in_bounds(st, idx) is not True:
            raise Undecided("read of buffer byte %s is not provably inside the 1029-byte buffer" % (idx,))
        k = self.byte_key(idx)
        if k in st.mem:
            return st.mem[k]
        # unknown-index reads of bytes written under another affine index would need aliasing reasoning
        return BV([bf_atom(("D", k[0], k[1], i)) for i in range(8)], False)

    def write_byte(self, st, idx, v):
        if self.in_bounds(st, idx) is not True:
            raise Panic("store to buffer byte %s outside the 1029-byte buffer" % (idx,))
        v = self.as_bv(self.to_bv(v, 8), 8)
        k = self.byte_key(idx)
        st.mem[k] = v
        st.seq += 1
        st.stores.append((st.seq, k, v.concrete() == 0))
        st.written.add(k)

    def _get_quiet(self, loc):
        try:
            return Interp._get(self, self._cur, loc)
        except Exception:
            return None

    def rvalue(self, st, rv, dest_place):
        self._cur = st
        if rv["k"] == "discr":
            loc = self.resolve(st, rv["place"])
            if loc[0] == "msg" and not loc[1]:
                nb = st.choices.get("number")
                opts = self.variants if nb == 1 else (self.unsupported if nb == 0 else list(self.variants) + list(self.unsupported))
                return self.choose(st, "variant", opts)
        return Interp.rvalue(self, st, rv, dest_place)

    # ---- Q as an integer and as a bit pattern
    def to_int(self, v):
        if isinstance(v, BV):
            c = v.concrete()
            if c is not None:
                return c
            if is_q_bits(v):
                return Lin(1, 0)
        return v

    def to_bv(self, v, w):
        if isinstance(v, Lin):
            if lin_parts(v) == (1, 0):
                return q_bits(w)
            raise Undecided("bit operation on %s" % (v,))
        return v

    def binop(self, st, op, x, y, tya, dest_ty):
        base = op[:-12] if op.endswith("WithOverflow") else op
        if base in ("Add", "Sub", "Mul"):
            x, y = self.to_int(x), self.to_int(y)
        elif base in ("Div", "Rem"):
            x, y = self.to_int(x), self.to_int(y)
            if isinstance(x, Lin) and isinstance(y, int) and y > 0:
                a, c = lin_parts(x)
                if a % y == 0 and lin_range(x)[0] >= 0:
                    # (a*Q + c) / y with y | a and a non-negative total: floor division distributes
                    return mklin(a // y, c // y) if base == "Div" else c % y
                if (y & (y - 1)) == 0 and lin_parts(x) == (1, 0):
                    k = y.bit_length() - 1
                    q = q_bits(64)
                    return bitsem.bv_shr(q, k, False) if base == "Div" else BV(list(q.bits[:k]) + [0] * (64 - k), False)
        elif base in ("Shr", "Shl", "BitAnd", "BitOr", "BitXor"):
            tb = bitsem.ty_bits(tya) or (64, False)
            if isinstance(x, Lin):
                x = self.to_bv(x, tb[0])
            if isinstance(y, Lin):
                y = self.to_bv(y, tb[0])
        return Interp.binop(self, st, op, x, y, tya, dest_ty)

    def cast(self, v, src_ty, dst_ty):
        if isinstance(v, Ref):
            # pointer coercions (&[u8; N] -> &[u8], reborrows): the same place
            if self.data_loc(v.loc):
                return Ref(("slice", 0, DATA_LEN))
            if v.loc[0] == "local":
                x = self._get_quiet(v.loc)
                if isinstance(x, list):
                    return Ref(("aslice", x, 0, len(x)))
            return v
        d = bitsem.ty_bits(dst_ty)
        if isinstance(v, Lin) and d and lin_parts(v) == (1, 0) and d[0] < 64:
            return BV(q_bits(64).bits[:d[0]], d[1])
        return Interp.cast(self, v, src_ty, dst_ty)

    def compare(self, op, x, y):
        return Interp.compare(self, op, self.to_int(x), self.to_int(y))

    # ---- calls
    def choose(self, st, name, options):
        if name in st.choices:
            return st.choices[name]
        raise NeedChoice(name, options)

    def call(self, st, t):
        c = t.get("resolved") or t["callee"]
        short = c.rsplit("::", 1)[-1]
        if c in ("core::array::<impl core::ops::IndexMut<I> for [T; N]>::index_mut", "core::array::<impl core::ops::Index<I> for [T; N]>::index"):
            args = [self.operand(st, a) for a in t["args"]]
            base = args[0]
            if isinstance(base, Ref) and self.data_loc(base.loc):
                base = Ref(("slice", 0, DATA_LEN))
            elif isinstance(base, Ref) and base.loc[0] == "local":
                v = self._get(st, base.loc)
                if isinstance(v, list):
                    return self.array_index(st, base, v, args[1])
            t2 = dict(t)
            return self.slice_index(st, base, args[1])
        if c in ("core::slice::index::<impl core::ops::Index<I> for [T]>::index", "core::slice::index::<impl core::ops::IndexMut<I> for [T]>::index_mut"):
            args = [self.operand(st, a) for a in t["args"]]
            if isinstance(args[0], Ref) and args[0].loc[0] == "aslice":
                return self.aslice_index(args[0], args[1])
            return self.slice_index(st, args[0], args[1])
        if c == "df::assembler::Assembler::new":
            args = [self.operand(st, a) for a in t["args"]]
            sl = args[0]
            if not (isinstance(sl, Ref) and sl.loc[0] == "slice" and isinstance(args[1], int)):
                raise Undecided("Assembler::new on something that is not a sub-slice of the buffer")
            st.asm_seq = st.seq
            st.asm_window = (sl.loc[1], sl.loc[2])
            return Asm(sl.loc[1], sl.loc[2], args[1])
        if c == "df::assembler::Assembler::offset":
            args = [self.operand(st, a) for a in t["args"]]
            a = self._get(st, args[0].loc) if isinstance(args[0], Ref) else args[0]
            if not isinstance(a, Asm):
                raise Undecided("offset() of an unknown object")
            if a.offset is not None:
                return a.offset
            s = self.choose(st, "s", list(range(1, 9)))
            st.s = s
            return Lin(8, s - 8)
        if c == "df::assembler::Assembler::put" or (c.startswith("msg::") and short in ("encode", "generate")):
            args = [self.operand(st, a) for a in t["args"]]
            a = self._get(st, args[0].loc) if isinstance(args[0], Ref) else None
            if not isinstance(a, Asm):
                raise Undecided("%s on an unknown assembler" % short)
            nc = getattr(st, "ncall", 0) + 1
            if len(st.writes_log) < nc:
                st.writes_log.append(("put", args[1], args[2]) if c.endswith("::put") else ("encode", c, None))
            ok = self.choose(st, "call%d" % nc, [1, 0])
            st.ncall = nc
            st.window_written = True
            if c.endswith("::put") and a.offset is not None and isinstance(args[2], int):
                a.offset = a.offset + args[2] if ok else a.offset
            else:
                a.offset = None
            if ok:
                return Adt("core::result::Result", 0, "Ok", [UNIT])
            return Adt("core::result::Result", 1, "Err", [Opaque("error", (c,))])
        if short == "for_each" and "Iterator" in c and len(t["args"]) == 2:
            args = [self.operand(st, a) for a in t["args"]]
            if isinstance(args[0], bitsem.It) and isinstance(args[1], bitsem.Closure):
                n = 0
                while True:
                    nx = self.it_next(st, args[0])
                    if nx.vname == "None":
                        break
                    n += 1
                    if n > 2000:
                        raise Undecided("for_each over more than 2000 elements")
                    self.exec_closure(st, args[1], [nx.fields[0]])
                return UNIT
            raise Undecided("for_each on an unmodelled iterator")
        if c == "core::iter::Iterator::step_by" and len(t["args"]) == 2:
            args = [self.operand(st, a) for a in t["args"]]
            src, n_ = args[0], args[1]
            if isinstance(src, Adt) and src.path == "core::ops::RangeFrom" and isinstance(src.fields[0], int) and isinstance(n_, int) and n_ > 0:
                return StepSeq(src.fields[0], n_)
            raise Undecided("step_by on something other than `(literal..)` with a literal step")
        if c == "core::iter::Iterator::zip" and len(t["args"]) == 2:
            args = [self.operand(st, a) for a in t["args"]]
            if isinstance(args[0], bitsem.It) and isinstance(args[1], list):
                return ZipObj(args[0], list(args[1]))
            if isinstance(args[0], bitsem.It) and isinstance(args[1], StepSeq):
                return ZipObj(args[0], args[1])
            raise Undecided("zip of something other than a buffer iterator and an array")
        if short == "into_iter" and len(t["args"]) == 1:
            a0 = self.operand(st, t["args"][0])
            if isinstance(a0, ZipObj):
                return a0
        if c.endswith("::next") and "core::iter::Zip<" in c:
            r = self.operand(st, t["args"][0])
            obj = self._get(st, r.loc) if isinstance(r, Ref) else None
            if not isinstance(obj, ZipObj):
                raise Undecided("Zip::next on an unmodelled iterator")
            if obj.pos >= len(obj.b):
                return Adt("core::option::Option", 0, "None", [])
            x = self.it_next(st, obj.a)
            if x.vname == "None":
                return x
            y = obj.b[obj.pos]
            obj.pos += 1
            return Adt("core::option::Option", 1, "Some", [Tup([x.fields[0], y])])
        if c == "msg::message::Message::number":
            if "variant" in st.choices and "number" not in st.choices:
                st.choices["number"] = 1 if st.choices["variant"] in self.variants else 0
            some = self.choose(st, "number", [1, 0])
            if some:
                return Adt("core::option::Option", 1, "Some", [BV([bf_atom(("N", k)) for k in range(16)], False)])
            return Adt("core::option::Option", 0, "None", [])
        if c == "<core::result::Result<T, E> as core::ops::Try>::branch":
            args = [self.operand(st, a) for a in t["args"]]
            r = args[0]
            if isinstance(r, Adt) and r.vname == "Ok":
                return Adt("core::ops::ControlFlow", 0, "Continue", [r.fields[0]])
            if isinstance(r, Adt) and r.vname == "Err":
                return Adt("core::ops::ControlFlow", 1, "Break", [Adt("core::result::Result", 1, "Err", [r.fields[0]])])
            raise Undecided("`?` on an unknown result")
        if c.endswith("FromResidual<core::result::Result<core::convert::Infallible, E>>>::from_residual"):
            args = [self.operand(st, a) for a in t["args"]]
            if isinstance(args[0], Adt) and args[0].vname == "Err":
                return args[0]
            raise Undecided("from_residual of an unknown residual")
        if c == "crc_any::CRC::crc24lte_a":
            return CrcObj()
        if c == "crc_any::CRC::digest":
            args = [self.operand(st, a) for a in t["args"]]
            obj = self._get(st, args[0].loc) if isinstance(args[0], Ref) else None
            sl = args[1]
            if not isinstance(obj, CrcObj) or not (isinstance(sl, Ref) and sl.loc[0] == "slice"):
                raise Undecided("digest of something that is not a sub-slice of the buffer")
            obj.ranges.append((sl.loc[1], sl.loc[2]))
            obj.seq = st.seq
            return UNIT
        if c == "crc_any::CRC::get_crc":
            args = [self.operand(st, a) for a in t["args"]]
            obj = self._get(st, args[0].loc) if isinstance(args[0], Ref) else None
            if not isinstance(obj, CrcObj):
                raise Undecided("get_crc on an unknown object")
            key = tuple((lin_parts(a), lin_parts(b)) for a, b in obj.ranges)
            st.digest_seq = getattr(obj, "seq", None)
            return BV([bf_atom(("CRC", key, i)) for i in range(24)] + [0] * 40, False)
        if bitsem.re.fullmatch(r"core::num::<impl u(16|32|64|size)>::to_be_bytes", c):
            args = [self.operand(st, a) for a in t["args"]]
            v = args[0]
            if isinstance(v, Lin):
                v = self.to_bv(v, 64)
            if not isinstance(v, BV):
                raise Undecided("to_be_bytes of a non-bit-vector")
            n = v.w // 8
            return [BV(v.bits[8 * (n - 1 - i): 8 * (n - i)], False) for i in range(n)]
        if c in ("core::slice::<impl [T]>::split_at_mut", "core::slice::<impl [T]>::split_at"):
            args = [self.operand(st, a) for a in t["args"]]
            base = args[0]
            if isinstance(base, Ref) and self.data_loc(base.loc):
                base = Ref(("slice", 0, DATA_LEN))
            if not (isinstance(base, Ref) and base.loc[0] == "slice"):
                raise Undecided("split_at on something that is not the buffer")
            mid = add(base.loc[1], self.to_int(args[1]))
            if self.compare("Le", mid, base.loc[2]) != 1:
                raise Panic("split_at beyond the end")
            return Tup([Ref(("slice", base.loc[1], mid)), Ref(("slice", mid, base.loc[2]))])
        if c == "core::slice::<impl [T]>::copy_from_slice":
            args = [self.operand(st, a) for a in t["args"]]
            dst, src = args[0], args[1]
            if not (isinstance(dst, Ref) and dst.loc[0] == "slice" and isinstance(src, Ref) and src.loc[0] == "aslice"):
                raise Undecided("copy_from_slice with unmodelled operands")
            vals = src.loc[1][src.loc[2]:src.loc[3]]
            n = sub(dst.loc[2], dst.loc[1])
            if n != len(vals):
                raise Panic("copy_from_slice: lengths differ (%s vs %d)" % (n, len(vals)))
            for i, v in enumerate(vals):
                self.write_byte(st, add(dst.loc[1], i), v)
            return UNIT
        if c == "core::slice::<impl [T]>::fill":
            args = [self.operand(st, a) for a in t["args"]]
            dst = args[0]
            if isinstance(dst, Ref) and self.data_loc(dst.loc):
                dst = Ref(("slice", 0, DATA_LEN))
            if not (isinstance(dst, Ref) and dst.loc[0] == "slice" and isinstance(dst.loc[1], int) and isinstance(dst.loc[2], int)):
                raise Undecided("fill of a slice with symbolic bounds")
            for i in range(dst.loc[1], dst.loc[2]):
                self.write_byte(st, i, args[1])
            return UNIT
        if c in ("core::slice::<impl [T]>::iter_mut", "core::slice::<impl [T]>::iter"):
            args = [self.operand(st, a) for a in t["args"]]
            if isinstance(args[0], Ref) and self.data_loc(args[0].loc):
                return bitsem.It(0, DATA_LEN, short == "iter_mut")
        if c.startswith("core::panicking::"):
            raise Panic("explicit panic / unreachable!()")
        return Interp.call(self, st, t)

    def slice_index(self, st, base, rg):
        if isinstance(base, Ref) and self.data_loc(base.loc):
            base = Ref(("slice", 0, DATA_LEN))
        if not (isinstance(base, Ref) and base.loc[0] == "slice"):
            raise Undecided("indexing something that is not the buffer")
        lo0, hi0 = base.loc[1], base.loc[2]
        if isinstance(rg, Adt) and (rg.path or "").startswith("core::ops::Range"):
            nm = rg.path.rsplit("::", 1)[-1]
            f = [self.to_int(x) for x in rg.fields]
            if nm == "Range":
                lo, hi = add(lo0, f[0]), add(lo0, f[1])
            elif nm == "RangeFrom":
                lo, hi = add(lo0, f[0]), hi0
            elif nm == "RangeTo":
                lo, hi = lo0, add(lo0, f[0])
            elif nm == "RangeFull":
                lo, hi = lo0, hi0
            elif nm == "RangeToInclusive":
                lo, hi = lo0, add(add(lo0, f[0]), 1)
            elif nm == "RangeInclusive" and len(f) >= 2:
                lo, hi = add(lo0, f[0]), add(add(lo0, f[1]), 1)
            else:
                raise Undecided("range kind " + nm)
            if self.compare("Le", lo, hi) != 1 or self.compare("Le", hi, hi0) != 1:
                raise Panic("slice %s..%s of the buffer part %s..%s" % (lo, hi, lo0, hi0))
            return Ref(("slice", lo, hi))
        idx = self.to_int(rg)
        if lin_parts(idx) is None:
            raise Undecided("index by an unmodelled value")
        return Ref(self.index_loc(st, base.loc, idx))

    def array_index(self, st, base, arr, rg):
        if isinstance(rg, Adt) and (rg.path or "").startswith("core::ops::Range"):
            nm = rg.path.rsplit("::", 1)[-1]
            n = len(arr)
            if nm == "RangeFrom":
                lo, hi = rg.fields[0], n
            elif nm == "RangeTo":
                lo, hi = 0, rg.fields[0]
            elif nm == "Range":
                lo, hi = rg.fields[0], rg.fields[1]
            else:
                raise Undecided("range kind " + nm)
            if not (isinstance(lo, int) and isinstance(hi, int) and 0 <= lo <= hi <= n):
                raise Panic("array slice %s..%s of %d elements" % (lo, hi, n))
            return Ref(("aslice", arr, lo, hi))
        raise Undecided("array index by a non-range")

    def aslice_index(self, base, rg):
        arr, lo0, hi0 = base.loc[1], base.loc[2], base.loc[3]
        if isinstance(rg, Adt) and (rg.path or "").startswith("core::ops::Range"):
            nm = rg.path.rsplit("::", 1)[-1]
            if nm == "RangeFrom":
                lo, hi = lo0 + rg.fields[0], hi0
            elif nm == "RangeTo":
                lo, hi = lo0, lo0 + rg.fields[0]
            else:
                lo, hi = lo0 + rg.fields[0], lo0 + rg.fields[1]
            if not (lo0 <= lo <= hi <= hi0):
                raise Panic("array sub-slice out of range")
            return Ref(("aslice", arr, lo, hi))
        raise Undecided("array sub-slice index")

    def resolve(self, st, place):
        loc = ("local", place["local"], ())
        for p in place["proj"]:
            if loc[0] == "msg":
                if p["k"] == "field":
                    loc = ("msg", loc[1] + (p["i"],))
                elif p["k"] in ("downcast", "deref"):
                    pass
                else:
                    raise Undecided("projection into the message")
                continue
            sub_place = {"local": 0, "proj": [p]}
            if p["k"] == "deref":
                v = self._get(st, loc)
                if not isinstance(v, Ref):
                    raise Undecided("deref of a non-reference abstract value")
                loc = v.loc
            elif p["k"] == "field":
                if loc[0] == "local":
                    loc = ("local", loc[1], loc[2] + (p["i"],)) + tuple(loc[3:])
                elif loc[0] == "self":
                    loc = ("self", loc[1] + (p["i"],))
                else:
                    raise Undecided("field of an unmodelled location")
            elif p["k"] == "downcast":
                pass
            elif p["k"] == "index":
                loc = self.index_loc(st, loc, st.locals.get(p["local"]))
            elif p["k"] == "constindex":
                loc = self.index_loc(st, loc, p.get("offset", p.get("i")))
            elif p["k"] == "subslice" and not p.get("from_end") and isinstance(p.get("from"), int) and isinstance(p.get("to"), int):
                # `[first, rest @ ..] = &mut self.data`: the array positions from .. to
                if self.data_loc(loc):
                    loc = ("slice", 0, DATA_LEN)
                if loc[0] != "slice" or lin_parts(loc[1]) is None or loc[2] is None or lin_parts(loc[2]) is None:
                    raise Undecided("sub-slice pattern on an unmodelled location")
                lo, hi = add(loc[1], p["from"]), add(loc[1], p["to"])
                if Interp.compare(self, "Le", hi, loc[2]) != 1:
                    raise Undecided("sub-slice pattern beyond the slice")
                loc = ("slice", lo, hi)
            else:
                raise Undecided("projection %s" % p["k"])
        return loc


class NeedChoice(Exception):
    def __init__(self, name, options):
        self.name, self.options = name, options


def explore(prog, f, i_data, i_run, variants, max_paths=6000, unsupported=None):
    """All abstract paths: forks at every unknown choice (state cloned at the fork point)."""
    it = BuildInterp(prog, f, i_data, i_run)
    it.variants = variants
    it.unsupported = unsupported or []
    blocks = it.blocks
    done = []
    st0 = BState()
    work = []
    for hr in (1, 0):
        st = st0.clone()
        fields = [None, None]
        fields[i_data] = ("data",)
        fields[i_run] = hr
        st.self_fields = Tup(fields)
        st.frames = {0: st.locals}
        st.locals[1] = Ref(("self", ()))
        st.locals[2] = Ref(("msg", ()))
        st.choices = {"has_run": hr}
        st.writes_log = []
        work.append((st, 0, 0))
    npaths = 0
    while work:
        st, b, i = work.pop()
        while True:
            st.steps += 1
            if st.steps > 60000:
                raise Undecided("abstract execution does not terminate within 60000 blocks")
            blk = blocks[b]
            stmts = blk["stmts"]
            forked = False
            try:
                while i < len(stmts):
                    s_ = stmts[i]
                    if s_["k"] == "assign":
                        it.line = s_.get("line")
                        v = it.rvalue(st, s_["rv"], s_["place"])
                        it._set(st, it.resolve(st, s_["place"]), v)
                    i += 1
                t = blk["term"]
                it.line = t.get("line", it.line)
                k = t["k"]
                if k == "goto":
                    b, i = t["target"], 0
                    continue
                if k == "return":
                    done.append((st, st.locals.get(0)))
                    npaths += 1
                    if npaths > max_paths:
                        raise Undecided("more than %d abstract paths" % max_paths)
                    break
                if k == "assert":
                    c = it.operand(st, t["cond"])
                    st.asserts += 1
                    if not isinstance(c, int):
                        raise Undecided("assert %s on a non-constant (line %s)" % (t["kind"], t.get("line")))
                    if bool(c) != bool(t["expected"]):
                        raise Panic("%s" % t["kind"])
                    b, i = t["target"], 0
                    continue
                if k == "switch":
                    d = it.operand(st, t["discr"])
                    if isinstance(d, BV):
                        d = d.concrete()
                    if not isinstance(d, int):
                        raise Undecided("branch on a symbolic value (line %s)" % t.get("line"))
                    tgt = None
                    for v_, tb in t["arms"]:
                        if v_ == d:
                            tgt = tb
                    b, i = (tgt if tgt is not None else t["otherwise"]), 0
                    continue
                if k == "call":
                    r = it.call(st, t)
                    it._set(st, it.resolve(st, t["dest"]), r)
                    if t["target"] is None:
                        raise Undecided("diverging call")
                    b, i = t["target"], 0
                    continue
                if k == "drop":
                    b, i = t["target"], 0
                    continue
                if k == "unreachable":
                    raise Undecided("reached an `unreachable` terminator")
                raise Undecided("terminator " + k)
            except NeedChoice as e:
                for v in e.options:
                    s2 = st.clone()
                    s2.choices[e.name] = v
                    work.append((s2, b, i))
                forked = True
            if forked:
                break
    return done, it


# ------------------------------------------------------------------ specification
def check(prog, numtab=None):
    """{'paths', 'problems': [(category, text)], 'undecided': [text]}; numtab: {variant discriminant: message number} read off Message::number (T-num)"""
    out = {"paths": 0, "ok_paths": 0, "problems": [], "undecided": []}
    f = prog.fn(BUILD)
    adt = prog.adts.get("msg::message::MessageBuilder")
    madt = prog.adts.get("msg::message::Message")
    if f is None or adt is None or madt is None:
        out["undecided"].append("build_message / MessageBuilder / Message not found")
        return out
    fields = [x["name"] for x in adt["variants"][0]["fields"]]
    if sorted(fields) != ["data", "has_run"]:
        out["undecided"].append("MessageBuilder does not have exactly the fields data, has_run: %s" % fields)
        return out
    i_data, i_run = fields.index("data"), fields.index("has_run")
    variants = [int(v["discr"]) for v in madt["variants"] if v["name"] not in ("Empty", "Corrupt", "MsgNotSupported")]
    unsupported = [int(v["discr"]) for v in madt["variants"] if v["name"] in ("Empty", "Corrupt", "MsgNotSupported")]
    seen = set()

    def prob(cat, text):
        if (cat, text) not in seen:
            seen.add((cat, text))
            out["problems"].append((cat, text))
    bitsem.QMIN, bitsem.QMAX = 2, 1023
    try:
        try:
            done, it = explore(prog, f, i_data, i_run, variants, unsupported=unsupported)
        except Panic as e:
            prob("panic", "panic: %s" % e)
            return out
        except Undecided as e:
            out["undecided"].append(str(e))
            return out
        for st, ret in done:
            out["paths"] += 1
            hr0 = st.choices.get("has_run")
            run_f = st.self_fields.fields[i_run]
            asm_seq = st.asm_seq
            pre = [(q, k, z) for (q, k, z) in st.stores if asm_seq is None or q <= asm_seq]
            post = [(q, k, z) for (q, k, z) in st.stores if asm_seq is not None and q > asm_seq]
            if any(k == (0, 0) for q, k, z in st.stores):
                prob("writes", "data[0] (the preamble byte) is written")
            dirty = st.window_written or any(not z for q, k, z in st.stores)
            if dirty and run_f != 1:
                prob("set", "a build that wrote into the buffer leaves has_run = %s (the next build would not wipe)" % (run_f,))
            if asm_seq is not None:
                if getattr(st, "asm_window", None) != (3, 1026):
                    prob("win", "the assembler window is data[%s..%s], expected data[3..1026]" % getattr(st, "asm_window", ("?", "?")))
                if hr0 == 1:
                    zeroed = {k for q, k, z in pre if z}
                    missing = [i for i in range(3, 1026) if (0, i) not in zeroed]
                    if missing:
                        prob("gate", "a used builder (has_run) reaches Assembler::new with data[%d] (and %d more window bytes) not zeroed" % (missing[0], len(missing) - 1))
                if any(not z for q, k, z in pre):
                    prob("writes", "a non-zero byte is stored before the assembler is created")
            if not isinstance(ret, Adt) or ret.vname not in ("Ok", "Err"):
                prob("out", "a return value is not Ok(..)/Err(..) built in place")
                continue
            nonum = st.choices.get("number") == 0 or st.choices.get("variant") in unsupported
            if ret.vname == "Err":
                if nonum:
                    e = ret.fields[0]
                    if not (isinstance(e, Adt) and e.vname == "EncodingNotSupported"):
                        prob("num", "a message without a number is refused with %s, expected EncodingNotSupported" % getattr(e, "vname", "?"))
                    if st.window_written or post:
                        prob("num", "a message without a number is refused after something was written")
                continue
            # ---- Ok
            out["ok_paths"] += 1
            if nonum:
                prob("num", "a frame is produced for a message without a number")
                continue
            # the first thing written into the window is the message's own number, in 12 bits; then exactly one encoder runs
            wl = st.writes_log
            first_ok = False
            if wl and wl[0][0] == "put":
                val, width = wl[0][1], wl[0][2]
                if isinstance(val, BV) and val.concrete() is not None:
                    val = val.concrete()
                own = isinstance(val, BV) and tuple(val.bits[:16]) == tuple(bf_atom(("N", k)) for k in range(16)) and all(b == 0 for b in val.bits[16:])
                if not own and isinstance(val, int) and numtab is not None and "variant" in st.choices:
                    own = numtab.get(st.choices["variant"]) == val
                first_ok = own and width == 12
            if not first_ok:
                prob("first", "the first write of a build is %s, expected put(the message's own number, 12)" % (wl[0][:3] if wl else "nothing",))
            if [w[0] for w in wl[1:]] != ["encode"]:
                prob("first", "after the number %s run, expected exactly one encoder" % ([w[0] for w in wl[1:]],))
            fr = ret.fields[0]
            if not (isinstance(fr, Ref) and fr.loc[0] == "slice" and lin_parts(fr.loc[1]) == (0, 0) and lin_parts(fr.loc[2]) == (1, 6)):
                prob("out", "the returned frame is %s, expected data[0 .. data_len+6]" % (getattr(fr, "loc", fr),))
            b1 = st.mem.get((0, 1))
            b2 = st.mem.get((0, 2))
            q = q_bits(16)
            w1 = BV(list(q.bits[8:16]), False)
            w2 = BV(list(q.bits[0:8]), False)
            if not (isinstance(b1, BV) and b1.bits == w1.bits):
                prob("len", "data[1] is %s, expected (data_len >> 8) with the six reserved bits zero" % (b1,))
            if not (isinstance(b2, BV) and b2.bits == w2.bits):
                prob("len", "data[2] is %s, expected data_len & 0xff" % (b2,))
            key = None
            for j, off in ((0, 3), (1, 4), (2, 5)):
                bv = st.mem.get((1, off))
                want = []
                okb = isinstance(bv, BV)
                if okb:
                    for bit in range(8):
                        x = bv.bits[bit]
                        ci = (2 - j) * 8 + bit
                        if isinstance(x, tuple) and len(x[0]) == 1 and x[0][0][0] == "CRC" and x[0][0][2] == ci and x[1] == 0b10:
                            key = x[0][0][1]
                        else:
                            okb = False
                if not okb:
                    prob("crc", "data[data_len+%d] is %s, expected CRC bits %d..%d" % (off, bv, (2 - j) * 8 + 7, (2 - j) * 8))
            if key is not None:
                if tuple(key) != (((0, 0), (1, 3)),):
                    prob("crc", "the CRC digests %s, expected exactly data[0 .. data_len+3]" % [("%s..%s" % (mklin(*a), mklin(*b))) for a, b in key])
                if st.digest_seq is not None:
                    late = [k for q_, k, z in st.stores if q_ > st.digest_seq and ((k[0] == 0 and k[1] < 5) or (k[0] == 1 and k[1] < 3))]
                    if late:
                        prob("crc", "bytes %s are stored after the CRC was computed over them" % [str(mklin(*k)) for k in late])
            allowed = {(0, 1), (0, 2), (1, 3), (1, 4), (1, 5)}
            for q_, k, z in post:
                if k not in allowed:
                    prob("writes", "build_message stores directly into data[%s] after the assembler was created" % (mklin(*k),))
    finally:
        bitsem.QMIN, bitsem.QMAX = 0, 1 << 58
    return out
