"""Wire-layout automata: the sequence of (carrier, width) events a codec function performs on its Ok paths.

For every codec function the CFG is projected onto layout events (put / parse / consume_bits, calls to other codec
functions are expanded with the callee's automaton), error paths are cut, and the result is determinised and
minimised.  Language inclusion L(encode) <= L(decode) is then decided on the DFAs.
"""
from facts import callee_of
import libmodel

PUT = "df::assembler::Assembler::put"
PARSE = "df::parser::Parser::parse"
CONSUME = "df::parser::Parser::consume_bits"
FROM_RESIDUAL = "<core::result::Result<T, F> as core::ops::FromResidual<core::result::Result<core::convert::Infallible, E>>>::from_residual"


class DFA:
    __slots__ = ("n", "start", "acc", "delta")

    def __init__(self, n, start, acc, delta):
        self.n = n
        self.start = start
        self.acc = acc          # set of states
        self.delta = delta      # dict (state, sym) -> state

    def symbols(self):
        return {s for (_, s) in self.delta}


def is_codec(prog, c):
    return c in prog.fns and (c.startswith("msg::") or c.startswith("df::dfs::")) and c.rsplit("::", 1)[1] in ("encode", "decode")


def _event_of(t, width_const):
    g = libmodel.carrier_of(t.get("rargs") or t.get("cargs"))
    if g is None:
        return None
    return (g[0], width_const)


def fn_dfa(prog, path, memo, stack=()):
    if path in memo:
        return memo[path]
    if path in stack:
        raise ValueError("recursive codec " + path)
    f = prog.fn(path)
    # NFA: states = blocks (entry of block) + extra states; eps edges and symbol edges
    eps = {}
    sym = {}
    nstates = [len(f.blocks)]

    def new():
        nstates[0] += 1
        return nstates[0] - 1

    def add_eps(a, b):
        eps.setdefault(a, set()).add(b)

    def add_sym(a, s, b):
        sym.setdefault(a, {}).setdefault(s, set()).add(b)

    dead = set()
    for b in f.reachable():
        blk = f.blocks[b]
        for s in blk["stmts"]:
            if s["k"] == "assign" and s["place"]["local"] == 0 and not s["place"]["proj"] and s["rv"]["k"] == "aggregate" and s["rv"].get("vname") == "Err":
                dead.add(b)
        t = blk["term"]
        if t["k"] == "call" and callee_of(t) == FROM_RESIDUAL:
            dead.add(b)
        if t["k"] == "call" and (callee_of(t) or "").startswith("core::panicking::"):
            dead.add(b)
    accept = set()
    for b in f.reachable():
        if b in dead:
            continue
        t = f.term(b)
        k = t["k"]
        if k == "return":
            accept.add(b)
            continue
        succs = [s for s in f.succ(b) if s not in dead]
        if k == "call":
            c = callee_of(t)
            tgt = t["target"]
            if tgt is None or tgt in dead:
                continue
            if c in (PUT, PARSE):
                warg = t["args"][2] if c == PUT else t["args"][1]
                w = warg["val"] if warg["k"] == "const" and "val" in warg else "var"
                ev = _event_of(t, w)
                add_sym(b, ev, tgt)
            elif c == CONSUME:
                # consume_bits(8*k) after reading k bytes through Parser::data(): stands for (U8.8)^k
                mid = new()
                add_eps(b, mid)
                add_sym(mid, ("U8", 8), mid)
                add_eps(mid, tgt)
            elif is_codec(prog, c):
                sub = fn_dfa(prog, c, memo, stack + (path,))
                base = nstates[0]
                nstates[0] += sub.n
                add_eps(b, base + sub.start)
                for (q, s), r in sub.delta.items():
                    add_sym(base + q, s, base + r)
                for q in sub.acc:
                    add_eps(base + q, tgt)
            else:
                add_eps(b, tgt)
        else:
            for s in succs:
                add_eps(b, s)
    d = determinise(nstates[0], 0, accept, eps, sym)
    d = minimise(d)
    memo[path] = d
    return d


def determinise(n, start, accept, eps, sym):
    def closure(S):
        st = list(S)
        seen = set(S)
        while st:
            x = st.pop()
            for y in eps.get(x, ()):
                if y not in seen:
                    seen.add(y)
                    st.append(y)
        return frozenset(seen)
    s0 = closure({start})
    ids = {s0: 0}
    work = [s0]
    delta = {}
    acc = set()
    while work:
        S = work.pop()
        i = ids[S]
        if S & accept:
            acc.add(i)
        moves = {}
        for q in S:
            for a, tg in sym.get(q, {}).items():
                moves.setdefault(a, set()).update(tg)
        for a, tg in moves.items():
            T = closure(tg)
            if T not in ids:
                ids[T] = len(ids)
                work.append(T)
            delta[(i, a)] = ids[T]
    return DFA(len(ids), 0, acc, delta)


def minimise(d):
    """Moore partition refinement; also drops states that cannot reach acceptance."""
    # co-reachable
    rev = {}
    for (q, a), r in d.delta.items():
        rev.setdefault(r, set()).add(q)
    live = set(d.acc)
    st = list(d.acc)
    while st:
        x = st.pop()
        for y in rev.get(x, ()):
            if y not in live:
                live.add(y)
                st.append(y)
    if d.start not in live:
        return DFA(1, 0, set(), {})
    syms = sorted(d.symbols(), key=str)
    part = {q: (1 if q in d.acc else 0) for q in live}
    while True:
        sig = {}
        for q in live:
            key = (part[q],) + tuple(part.get(d.delta.get((q, a)), -1) if d.delta.get((q, a)) in live else -1 for a in syms)
            sig[q] = key
        ids = {}
        newp = {}
        for q in sorted(live):
            newp[q] = ids.setdefault(sig[q], len(ids))
        if len(ids) == len(set(part.values())):
            part = newp
            break
        part = newp
    delta = {}
    for (q, a), r in d.delta.items():
        if q in live and r in live:
            delta[(part[q], a)] = part[r]
    return DFA(len(set(part.values())), part[d.start], {part[q] for q in d.acc}, delta)


def included(a, b):
    """L(a) <= L(b)?  Returns (True, None) or (False, witness word)."""
    seen = {(a.start, b.start)}
    st = [(a.start, b.start, ())]
    while st:
        qa, qb, w = st.pop()
        if qa in a.acc and (qb is None or qb not in b.acc):
            return False, w
        for (q, s), r in a.delta.items():
            if q != qa:
                continue
            rb = b.delta.get((qb, s)) if qb is not None else None
            if rb is None:
                # b is stuck: any accepted continuation of a is a counterexample; a is trimmed so one exists
                return False, w + (s,)
            if (r, rb) not in seen:
                seen.add((r, rb))
                st.append((r, rb, w + (s,)))
    return True, None


def word_str(w):
    return " ".join("%s.%s" % (c, n) for c, n in w[-12:]) if w else "<empty>"
